"""C20 — Shamir secret sharing over a true GF(2^128)."""
import itertools

from hypothesis import strategies as st

from ..core import Check, Violation, libcall
from ..refs import gf128

META = {
    "rule": "Hypothesis-generated secrets/(k,n)/coefficient tapes/k-subsets/orders and field elements; "
            "non-trivial = k>=3 with a subset that is not the first k shares or not in index order, "
            "a field operand with the top bit set, a duplicate-index case, or a constructive secrecy case; "
            "distinct by (check, k, n, ssss, subset/order class, operand class)",
    "assumptions": ["reference GF(2^128) (carry-less multiply + reduction by x^128+x^7+x^2+x+1 on Python ints) is correct; "
                    "its field laws and irreducibility of the polynomial are self-tested",
                    "coefficient tape is injected by replacing Crypto.Protocol.SecretSharing.rng from the harness"],
    "unexplored": ["n above 255 (index is a field element; not documented as a limit)"],
}

SPECIAL = [0, 1, 2, 3, 0x87, 1 << 127, (1 << 128) - 1, (1 << 127) | 1, 0x87 ^ (1 << 127), 1 << 64, (1 << 64) - 1]


def elem():
    return st.one_of(st.sampled_from(SPECIAL), st.integers(0, (1 << 128) - 1), st.integers(0, (1 << 128) - 1),
                     st.integers(0, 255), st.integers(1 << 120, (1 << 128) - 1))


def opclass(a):
    if a in (0, 1):
        return str(a)
    if a >> 127:
        return "top"
    if a < 256:
        return "small"
    return "mid"


# ------------------------------------------------------------------ field
def strat_field(tier):
    # exponents as used by the ssss variant (the threshold k, up to the hundreds) and bases as used there (share indexes: small integers);
    # small base ** power of two is where a product first reaches degree exactly 128
    return st.fixed_dictionaries({"a": st.one_of(elem(), elem(), st.integers(0, 300), st.sampled_from([2, 3, 4, 5, 16, 17, 256, 257, 1 << 64, (1 << 64) + 1, 1 << 127])),
                                  "b": elem(), "c": elem(),
                                  # (exponent >= 1: _Element.__pow__ is a private helper that the library only calls with the threshold k >= 2; x**0 is outside its domain)
                                  "e": st.one_of(st.integers(1, 12), st.integers(1, 300), st.sampled_from([1, 2, 16, 31, 32, 33, 63, 64, 65, 127, 128, 129, 255, 256]))})


def run_field(case, rec):
    from Crypto.Protocol.SecretSharing import _Element
    a, b, c, e = case["a"], case["b"], case["c"], case["e"]
    A, B, C = _Element(a), _Element(b), _Element(c)

    def val(x):
        return int(x)
    got = val(A * B)
    exp = gf128.mul(a, b)
    if got != exp:
        raise Violation("field/mul", "a*b = %x, reference %x" % (got, exp), a=a, b=b)
    if val(A + B) != a ^ b:
        raise Violation("field/add", "a+b wrong", a=a, b=b)
    # laws on the library's own operators
    if val(A * B) != val(B * A):
        raise Violation("field/commutative", "a*b != b*a", a=a, b=b)
    if val((A * B) * C) != val(A * (B * C)):
        raise Violation("field/associative", "(ab)c != a(bc)", a=a, b=b, c=c)
    if val(A * (B + C)) != val(A * B + A * C):
        raise Violation("field/distributive", "a(b+c) != ab+ac", a=a, b=b, c=c)
    if a == 0:
        st_, r = libcall(A.inverse, allowed=(ValueError,))
        if st_ == "ok":
            raise Violation("field/inverse-zero", "inverse of zero returned %x" % val(r))
    else:
        inv = val(A.inverse())
        if inv != gf128.inv(a):
            raise Violation("field/inverse", "inverse(%x) = %x, reference %x" % (a, inv, gf128.inv(a)), a=a)
        if val(A * _Element(inv)) != 1:
            raise Violation("field/inverse-law", "a * a^-1 != 1", a=a)
    p = val(A ** e)
    if p != gf128.power(a, e):
        raise Violation("field/pow", "a**%d wrong" % e, a=a, e=e)
    enc_ = A.encode()
    if enc_ != a.to_bytes(16, "big") or val(_Element(enc_)) != a:
        raise Violation("field/encode", "encode/decode of element not big-endian 16 bytes", a=a)
    if (a >> 127) or (b >> 127) or a == 0 or b == 0:
        rec.nt("field", opclass(a), opclass(b), opclass(c))
    rec.event("field:%s*%s" % (opclass(a), opclass(b)))
    rec.sample({"a": a, "b": b, "c": c, "e": e})


# ------------------------------------------------------------------ split / combine
# (the last ones are 16-byte strings that also read as text: decimal literals, padded numbers, hex digits - a secret is bytes, never a number)
SECRETS = [bytes(16), b"\xff" * 16, b"\x80" + bytes(15), bytes(15) + b"\x87", bytes(15) + b"\x01",
           b"1234567890123456", b"0000000000000000", b"        20260926", b"+000000000000001", b"1_0_0_0_0_0_0_0_", b"-123456789012345", b"0x00000000000001", b"deadbeefdeadbeef"]


def secret():
    return st.one_of(st.sampled_from(SECRETS), st.binary(min_size=16, max_size=16))


@st.composite
def strat_split(draw, tier):
    nmax = 12 if tier == "quick" else 40
    big = draw(st.integers(0, 19)) == 0
    if big:
        # many shares / high share indexes: products of k index elements reach degree >= 128 (reduction really needed) from k ~ 16 upwards
        n = draw(st.sampled_from([40, 64, 128, 255, 255, 300, 1000 if tier != "quick" else 255]))
        k = min(n, draw(st.sampled_from([2, 3, 6, 16, 20, 24, 27, 32, 32, 33, 40, 64, 128])))
    else:
        n = draw(st.integers(2, nmax))
        k = draw(st.integers(2, min(n, 12)))
    coeffs = [draw(st.one_of(st.sampled_from(SECRETS), st.binary(min_size=16, max_size=16))) for _ in range(k - 1)]
    nsub = draw(st.integers(1, 6))
    subsets = []
    for _ in range(nsub if not big else 3):
        how = draw(st.sampled_from(["rand", "rand", "highest", "lowest"])) if big else "rand"
        if how == "highest":
            idx = draw(st.permutations(list(range(n - k + 1, n + 1))))
        elif how == "lowest":
            idx = list(range(1, k + 1))
        else:
            idx = draw(st.lists(st.integers(1, n), min_size=k, max_size=k, unique=True))
        subsets.append(list(idx))
    return {"k": k, "n": n, "secret": draw(secret()), "ssss": draw(st.booleans()), "coeffs": coeffs,
            "subsets": subsets, "all_subsets": draw(st.booleans())}


class Tape:
    def __init__(self, chunks):
        self.chunks = list(chunks)
        self.calls = []

    def __call__(self, n):
        self.calls.append(n)
        if not self.chunks:
            raise Violation("split/extra-draw", "split drew more than k-1 coefficients from the random source")
        c = self.chunks.pop(0)
        if len(c) != n:
            raise Violation("split/draw-size", "split asked the random source for %d bytes, not 16" % n)
        return c


def do_split(k, n, secret_, ssss, coeffs):
    from Crypto.Protocol import SecretSharing as SS
    tape = Tape(coeffs)
    old = SS.rng
    SS.rng = tape
    try:
        shares = SS.Shamir.split(k, n, secret_, ssss=ssss)
    finally:
        SS.rng = old
    return shares, tape


def ref_shares(k, n, secret_, ssss, coeffs):
    s = int.from_bytes(secret_, "big")
    # The k-1 drawn coefficients; any assignment of draws to degrees defines a valid random
    # polynomial, so both orders are accepted (first draw = highest or lowest degree).
    cs = [int.from_bytes(c, "big") for c in coeffs]
    out = []
    for order in (cs, list(reversed(cs))):
        sh = []
        for i in range(1, n + 1):
            y = gf128.horner(order + [s], i)
            if ssss:
                y ^= gf128.power(i, k)
            sh.append((i, y.to_bytes(16, "big")))
        out.append(sh)
    return out


def run_split(case, rec):
    from Crypto.Protocol.SecretSharing import Shamir
    k, n, sec, ssss, coeffs = case["k"], case["n"], case["secret"], case["ssss"], case["coeffs"]
    shares, tape = do_split(k, n, sec, ssss, coeffs)
    shares = [(int(i), bytes(v)) for i, v in shares]
    if tape.calls != [16] * (k - 1):
        raise Violation("split/draws", "random source calls %r, expected %d draws of 16 bytes" % (tape.calls[:8], k - 1),
                        k=k, n=n)
    if [i for i, _ in shares] != list(range(1, n + 1)):
        raise Violation("split/indexes", "share indexes are not 1..n", k=k, n=n)
    refs = ref_shares(k, n, sec, ssss, coeffs)
    if shares not in refs:
        raise Violation("split/shares", "shares differ from the evaluation of secret + sum c_i x^i%s at 1..n"
                        % (" + x^k" if ssss else ""), k=k, n=n, ssss=ssss)
    subsets = [list(s) for s in case["subsets"]]
    exhaustive = False
    if case["all_subsets"]:
        import math
        if math.comb(n, k) <= 300:
            subsets += [list(c) for c in itertools.combinations(range(1, n + 1), k)]
            exhaustive = True
    for sub in subsets:
        chosen = [shares[i - 1] for i in sub]
        got = Shamir.combine(chosen, ssss=ssss)
        if bytes(got) != sec:
            raise Violation("combine/wrong-secret", "combine of shares %r returned %s, secret %s" % (sub, bytes(got).hex(), sec.hex()),
                            k=k, n=n, ssss=ssss, subset=sub)
        # cross-check with the reference interpolation
        pts = []
        for i, v in chosen:
            y = int.from_bytes(v, "big")
            if ssss:
                y ^= gf128.power(i, k)
            pts.append((i, y))
        if gf128.interpolate_at_zero(pts).to_bytes(16, "big") != sec:
            from ..core import HarnessError
            raise HarnessError("reference interpolation does not return the secret")
        first_k = sorted(sub) == list(range(1, k + 1))
        inorder = sub == sorted(sub)
        if k >= 3 and (not first_k or not inorder):
            rec.nt("split", k, min(n, 13), ssss, first_k, inorder)
        rec.event("combine:k=%s%s%s" % (k if k < 6 else "6+", ":ssss" if ssss else "", "" if inorder else ":unordered"))
    if exhaustive:
        rec.event("split:all-k-subsets")
    rec.sample({"k": k, "n": n, "ssss": ssss, "secret": sec, "subsets": case["subsets"][:2]})


# ------------------------------------------------------------------ duplicates
@st.composite
def strat_dup(draw, tier):
    n = draw(st.integers(2, 10))
    k = draw(st.integers(2, n))
    idx = draw(st.lists(st.integers(1, n), min_size=k, max_size=k, unique=True))
    pos = draw(st.integers(0, k - 1))
    src = draw(st.integers(0, k - 1).filter(lambda x: True))
    return {"k": k, "n": n, "secret": draw(secret()), "ssss": draw(st.booleans()), "idx": idx,
            "pos": pos, "src": src, "same_value": draw(st.booleans()),
            "coeffs": [draw(st.binary(min_size=16, max_size=16)) for _ in range(k - 1)]}


def run_dup(case, rec):
    from Crypto.Protocol.SecretSharing import Shamir
    k, n = case["k"], case["n"]
    pos, src = case["pos"], case["src"]
    if pos == src:
        src = (pos + 1) % k
    shares, _ = do_split(k, n, case["secret"], case["ssss"], case["coeffs"])
    chosen = [shares[i - 1] for i in case["idx"]]
    dup_idx = chosen[src][0]
    val = chosen[src][1] if case["same_value"] else chosen[pos][1]
    chosen[pos] = (dup_idx, val)
    st_, r = libcall(Shamir.combine, chosen, ssss=case["ssss"], allowed=(ValueError,))
    if st_ == "ok":
        raise Violation("combine/duplicate-accepted", "combine accepted a duplicate share index %d and returned %s"
                        % (dup_idx, bytes(r).hex()), idx=[c[0] for c in chosen])
    rec.nt("dup", k, case["ssss"], case["same_value"], pos < src)
    rec.event("duplicate-index-refused")
    rec.sample({"k": k, "idx": [c[0] for c in chosen]})


# ------------------------------------------------------------------ perfect secrecy (constructive)
@st.composite
def strat_secrecy(draw, tier):
    n = draw(st.integers(2, 9))
    k = draw(st.integers(2, min(n, 6)))
    held = draw(st.lists(st.integers(1, n), min_size=k - 1, max_size=k - 1, unique=True))
    return {"k": k, "n": n, "secret": draw(secret()), "other": draw(secret()), "ssss": draw(st.booleans()),
            "held": held, "coeffs": [draw(st.binary(min_size=16, max_size=16)) for _ in range(k - 1)]}


def run_secrecy(case, rec):
    k, n, ssss = case["k"], case["n"], case["ssss"]
    shares, _ = do_split(k, n, case["secret"], ssss, case["coeffs"])
    held = [(int(shares[i - 1][0]), bytes(shares[i - 1][1])) for i in case["held"]]
    s2 = int.from_bytes(case["other"], "big")
    pts = [(0, s2)]
    for i, v in held:
        y = int.from_bytes(v, "big")
        if ssss:
            y ^= gf128.power(i, k)
        pts.append((i, y))
    cs = gf128.interpolate_coeffs(pts)          # low first, degree < k, cs[0] == s2
    if cs[0] != s2:
        from ..core import HarnessError
        raise HarnessError("interpolation through (0, s') failed")
    hi_first = [c.to_bytes(16, "big") for c in reversed(cs[1:])]
    # the library may consume the draws highest-degree-first or lowest-first: try both tapes
    ok = False
    for tape in (hi_first, list(reversed(hi_first))):
        sh2, _ = do_split(k, n, case["other"], ssss, tape)
        if all(bytes(sh2[i - 1][1]) == v for i, v in held):
            ok = True
            break
    if not ok:
        raise Violation("secrecy/k-1-shares-determine-secret",
                        "k-1 shares of one split cannot be reproduced for another secret by any coefficient choice",
                        k=k, n=n, ssss=ssss)
    rec.nt("secrecy", k, n, ssss)
    rec.event("secrecy:k=%d" % k)
    rec.sample({"k": k, "n": n, "held": case["held"], "secret": case["secret"], "other": case["other"]})


CHECKS = [
    Check("field", run=run_field, strategy=strat_field, examples=(3000, 60000), shards=(8, 16),
          rule="field: _Element * + inverse ** encode vs reference and field laws"),
    Check("split_combine", run=run_split, strategy=strat_split, examples=(320, 6000), shards=(16, 16),
          rule="split with injected coefficient tape == reference polynomial evaluation; combine(any k-subset, any order) == secret"),
    Check("duplicate", run=run_dup, strategy=strat_dup, examples=(400, 4000), shards=(2, 8),
          rule="duplicate share index refused with ValueError"),
    Check("secrecy", run=run_secrecy, strategy=strat_secrecy, examples=(300, 5000), shards=(2, 8),
          rule="for any k-1 shares and any other secret there is a coefficient tape giving the same k-1 shares"),
]
