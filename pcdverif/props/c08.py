"""C08 — key export then import is the identity; encodings canonical; == is semantic."""
import base64
import hashlib

from hypothesis import strategies as st

from ..core import Check, Violation, HarnessError, Skip, libcall
from .. import gen, keys
from ..refs import der, ec, libcrypto as lc

META = {
    "rule": "keys built from harness numbers (RSA 1024/1025/1031/1536 bits with e in {3, 17, 65537}; DSA FIPS pairs; nine curves with scalars/seeds "
            "chosen to have leading-zero and high-bit bytes), private and public, crossed with every export option of the three export_key "
            "methods: format x pkcs/use_pkcs8 x passphrase (str/bytes, non-ASCII) x protection (PBKDF2 with 11 PRFs or scrypt x 7 ciphers) x "
            "prot_params x compress. Oracles: (1) import(export(k)) == k and component-wise integer equality; (2) independent parser: libcrypto "
            "OSSL_DECODER (+ own OpenSSH/SEC1/raw decoders) returns the same numbers; (3) strict DER reader re-encodes identically, PEM "
            "armour well-formed; (4) equality model same type and privacy and components on generated key pairs. Non-trivial = protected "
            "export, compressed point, leading-zero component, or an inequality pair; distinct by (key type, size/curve, format tuple, "
            "protection, pair class)",
    "assumptions": ["libcrypto's decoders are an independent implementation; combinations it does not support (e.g. HMAC-SHA3 PRFs, AES-GCM in "
                    "PBES2) are counted as second-opinion-unavailable",
                    "strict DER reader in pcdverif/refs/der.py"],
    "unexplored": ["RSA keys above 2048 bits", "scrypt N above 64"],
}

PRFS = ["SHA1", "SHA224", "SHA256", "SHA384", "SHA512", "SHA512-224", "SHA512-256", "SHA3-224", "SHA3-256", "SHA3-384", "SHA3-512"]
CIPHERS = ["DES-EDE3-CBC", "AES128-CBC", "AES192-CBC", "AES256-CBC", "AES128-GCM", "AES192-GCM", "AES256-GCM"]
MAINSTREAM_PRF = {"SHA1", "SHA256", "SHA384", "SHA512", "SHA224"}


class DetRand:
    def __init__(self, seed):
        self.h = hashlib.shake_128(b"c08" + bytes(seed))
        self.pos = 0

    def __call__(self, n):
        out = self.h.digest(self.pos + n)[self.pos:]
        self.pos += n
        return out


@st.composite
def protection(draw):
    if draw(st.integers(0, 4)) == 0:
        prot = "scryptAnd" + draw(st.sampled_from(CIPHERS[1:]))
        params = {"iteration_count": draw(st.sampled_from([2, 16, 64])), "block_size": draw(st.integers(1, 3)), "parallelization": draw(st.integers(1, 2)),
                  "salt_size": draw(st.integers(1, 32))}
    else:
        prot = "PBKDF2WithHMAC-%sAnd%s" % (draw(st.sampled_from(PRFS)), draw(st.sampled_from(CIPHERS)))
        params = {"iteration_count": draw(st.integers(1, 64)), "salt_size": draw(st.integers(1, 32))}
    if draw(st.integers(0, 3)) == 0:
        params = None
    return prot, params


def passphrase():
    return st.one_of(st.binary(min_size=1, max_size=16), st.text(min_size=1, max_size=8), st.just("pässwörd"), st.just(b"\xff\x00\x01"))


@st.composite
def strat_rt(draw, tier):
    fam = draw(st.sampled_from(["rsa", "rsa", "dsa", "ecc", "ecc", "ecc"]))
    c = {"fam": fam, "private": draw(st.booleans()), "seed": draw(st.binary(min_size=8, max_size=8)), "wrong": draw(st.sampled_from(["right", "right", "right", "wrong", "missing"]))}
    pw = draw(st.one_of(st.none(), passphrase()))
    prot, params = draw(protection())
    if fam == "rsa":
        c["bits"] = draw(st.sampled_from([1024, 1025, 1031, 1536] if tier == "thorough" else [1024, 1025, 1031]))
        # exponents and moduli whose leading byte sits at the sign-bit boundary of mpint / DER INTEGER encodings
        c["e"] = draw(st.sampled_from([65537, 65537, 3, 17, 257, 0x8001, 0x800F, 0x80000001, 0xFFFF, 0x7FFF, 0x1000001]))
        c["idx"] = draw(st.integers(0, 2))
        if c["bits"] == 1024 and draw(st.integers(0, 3)) == 0:
            c["ntop"] = draw(st.sampled_from([0x80, 0x80, 0x81, 0xFF]))
            c["idx"] = 0
        if c["private"]:
            c["format"] = draw(st.sampled_from(["PEM", "DER"]))
            c["pkcs"] = draw(st.sampled_from([1, 8]))
            if pw is not None and not (c["format"] == "DER" and c["pkcs"] == 1):
                c["passphrase"] = pw
                if c["pkcs"] == 8:
                    c["protection"], c["prot_params"] = prot, params
        else:
            c["format"] = draw(st.sampled_from(["PEM", "DER", "OpenSSH"]))
    elif fam == "dsa":
        c["pair"] = draw(st.sampled_from([[1024, 160]] if tier == "quick" else [[1024, 160], [2048, 224], [2048, 256]]))
        c["idx"] = draw(st.integers(0, 1))
        c["ytop"] = draw(st.sampled_from([None, None, "80", "7f"]))
        if c["private"]:
            c["format"] = draw(st.sampled_from(["PEM", "DER"]))
            c["pkcs8"] = draw(st.sampled_from([None, True, False]))
            if pw is not None and not (c["format"] == "DER" and c["pkcs8"] is False):
                c["passphrase"] = pw
                if c["pkcs8"] is not False:
                    c["protection"] = prot if draw(st.booleans()) else None
        else:
            c["format"] = draw(st.sampled_from(["PEM", "DER", "OpenSSH"]))
    else:
        c["curve"] = draw(st.sampled_from(keys.ALL_CURVES))
        c["dkind"] = draw(st.sampled_from(["rand", "rand", "small", "leading-zero", "high-bit", "n-1"]))
        nist = c["curve"] in keys.NIST
        if c["private"]:
            c["format"] = draw(st.sampled_from(["PEM", "DER"]))
            c["use_pkcs8"] = draw(st.booleans()) if nist else True
            if pw is not None and c["use_pkcs8"]:
                c["passphrase"] = pw
                c["protection"], c["prot_params"] = prot, params
            elif pw is not None and c["format"] == "PEM" and nist:
                c["passphrase"] = pw
        else:
            fmts = ["PEM", "DER"]
            if nist:
                fmts += ["SEC1", "OpenSSH"]
                c["compress"] = draw(st.booleans())
            elif c["curve"].startswith("ed"):
                fmts += ["raw"] + (["OpenSSH"] if c["curve"] == "ed25519" else [])
            else:
                fmts += ["raw"]
            c["format"] = draw(st.sampled_from(fmts))
    return c


def build_key(c):
    """Returns (library key, component dict of Python ints/bytes)."""
    from Crypto.PublicKey import RSA, DSA, ECC
    fam = c["fam"]
    if fam == "rsa":
        if c.get("ntop"):
            n, e, d, p, q = keys.rsa_numbers_top(c["bits"], c["ntop"], c["e"], c["idx"])
        else:
            n, e, d, p, q = keys.rsa_numbers(c["bits"], c["idx"], c["e"])
        k = RSA.construct((n, e, d, p, q))
        comp = {"n": n, "e": e, "d": d, "p": p, "q": q}
    elif fam == "dsa":
        y, g, p, q, x = keys.dsa_numbers(c["pair"][0], c["pair"][1], c["idx"])
        if c.get("ytop"):
            # private value chosen so that the leading byte of y sits at the sign-bit boundary (0x80) or needs no sign byte (< 0x80)
            x = 2 + int.from_bytes(c["seed"], "big") % (q - 10000)
            for _ in range(4000):
                y = pow(g, x, p)
                if y.bit_length() % 8 == 0 and (y >> (y.bit_length() - 8)) == 0x80 and c["ytop"] == "80":
                    break
                if y.bit_length() % 8 == 7 and c["ytop"] == "7f":
                    break
                x += 1
            y = pow(g, x, p)
        k = DSA.construct((y, g, p, q, x))
        comp = {"y": y, "g": g, "p": p, "q": q, "x": x}
    else:
        curve = c["curve"]
        C = ec.CURVES[keys.REFNAME[curve]]
        if curve in keys.NIST:
            n = C["n"]
            nb = (n.bit_length() + 7) // 8
            d = {"rand": keys.ecc_scalar(curve, c["seed"]), "small": 1 + c["seed"][0], "leading-zero": keys.ecc_scalar(curve, c["seed"]) >> 17,
                 "high-bit": (keys.ecc_scalar(curve, c["seed"]) | (1 << (n.bit_length() - 2))) % n or 1, "n-1": n - 1}[c["dkind"]]
            k = ECC.construct(curve=curve, d=d)
            Q = ec.ws_mul(C, d, (C["Gx"], C["Gy"]))
            comp = {"d": d, "x": Q[0], "y": Q[1]}
        else:
            seed = keys.ecc_seed(curve, c["seed"])
            if c["dkind"] == "leading-zero":
                seed = b"\0\0" + seed[2:]
            elif c["dkind"] == "high-bit":
                seed = seed[:-1] + b"\xff"
            k = ECC.construct(curve=curve, seed=seed)
            if curve.startswith("ed"):
                comp = {"seed": seed, "pub": ec.eddsa_pubkey(keys.REFNAME[curve], seed)}
            else:
                f = ec.x25519 if curve == "curve25519" else ec.x448
                base = (9).to_bytes(32, "little") if curve == "curve25519" else (5).to_bytes(56, "little")
                comp = {"seed": seed, "pub": f(seed, base)}
    if not c["private"]:
        k = k.public_key()
    return k, comp


def export_kwargs(c):
    kw = {"format": c["format"]}
    for name in ("pkcs", "pkcs8", "use_pkcs8", "compress", "passphrase", "protection", "prot_params"):
        if name in c and c[name] is not None:
            kw[name] = c[name]
    if c["fam"] in ("rsa",) or "passphrase" in kw:
        kw["randfunc"] = DetRand(c["seed"])
    return kw


def components_of(k, fam):
    """Integers of a library key object (public view + private when present)."""
    if fam == "rsa":
        out = {"n": int(k.n), "e": int(k.e)}
        if k.has_private():
            out.update(d=int(k.d), p=int(k.p), q=int(k.q))
            if sorted([out["p"], out["q"]]) != sorted([int(k.p), int(k.q)]):
                pass
        return out
    if fam == "dsa":
        out = {"y": int(k.y), "g": int(k.g), "p": int(k.p), "q": int(k.q)}
        if k.has_private():
            out["x"] = int(k.x)
        return out
    if k.curve in ("Ed25519", "Ed448", "Curve25519", "Curve448"):
        out = {"pub": bytes(k.public_key().export_key(format="raw"))}
        if k.has_private():
            out["seed"] = bytes(k.seed)
        return out
    out = {"x": int(k.pointQ.x), "y": int(k.pointQ.y)}
    if k.has_private():
        out["d"] = int(k.d)
    return out


def expected_components(comp, fam, private, curve=None):
    if fam == "rsa":
        keys_ = ["n", "e"] + (["d", "p", "q"] if private else [])
    elif fam == "dsa":
        keys_ = ["y", "g", "p", "q"] + (["x"] if private else [])
    elif "seed" in comp:
        keys_ = ["pub"] + (["seed"] if private else [])
    else:
        keys_ = ["x", "y"] + (["d"] if private else [])
    return {k: comp[k] for k in keys_}


def ssh_fields(blob):
    out = []
    while blob:
        n = int.from_bytes(blob[:4], "big")
        out.append(blob[4:4 + n])
        blob = blob[4 + n:]
    return out


# ------------------------------------------------------------------ own reader of PBES2-protected PKCS#8 (RFC 8018 / RFC 7914), independent of the library
PRF_OIDS = {"1.2.840.113549.2.7": "sha1", "1.2.840.113549.2.8": "sha224", "1.2.840.113549.2.9": "sha256", "1.2.840.113549.2.10": "sha384",
            "1.2.840.113549.2.11": "sha512", "1.2.840.113549.2.12": "sha512_224", "1.2.840.113549.2.13": "sha512_256",
            "2.16.840.1.101.3.4.2.13": "sha3_224", "2.16.840.1.101.3.4.2.14": "sha3_256", "2.16.840.1.101.3.4.2.15": "sha3_384", "2.16.840.1.101.3.4.2.16": "sha3_512"}
PRF_OF_PROTECTION = {"SHA1": "sha1", "SHA224": "sha224", "SHA256": "sha256", "SHA384": "sha384", "SHA512": "sha512", "SHA512-224": "sha512_224", "SHA512-256": "sha512_256",
                     "SHA3-224": "sha3_224", "SHA3-256": "sha3_256", "SHA3-384": "sha3_384", "SHA3-512": "sha3_512"}
ENC_OIDS = {"1.2.840.113549.3.7": ("DES3", 24, "CBC"), "2.16.840.1.101.3.4.1.2": ("AES", 16, "CBC"), "2.16.840.1.101.3.4.1.22": ("AES", 24, "CBC"),
            "2.16.840.1.101.3.4.1.42": ("AES", 32, "CBC"), "2.16.840.1.101.3.4.1.6": ("AES", 16, "GCM"), "2.16.840.1.101.3.4.1.26": ("AES", 24, "GCM"),
            "2.16.840.1.101.3.4.1.46": ("AES", 32, "GCM")}


def own_pbes2_open(raw, pwb):
    """(inner DER, description) of an EncryptedPrivateKeyInfo protected with PBES2, decrypted with hashlib + the reference ciphers.
    Returns None if the structure is not PBES2 or uses something this reader does not know; raises ValueError if decryption fails."""
    from ..refs import modes
    from .. import oracles
    if raw.startswith(b"-----"):
        lines = [l for l in raw.decode().splitlines() if l and not l.startswith("-----") and ":" not in l]
        raw = base64.b64decode("".join(lines))
    try:
        top = der.parse(raw)
        alg, blob = top[0], top[1].as_bytes()
        if alg[0].as_oid() != "1.2.840.113549.1.5.13":
            return None
        kdf, enc = alg[1][0], alg[1][1]
        kdf_oid, kp = kdf[0].as_oid(), kdf[1]
        enc_oid, iv = enc[0].as_oid(), enc[1].as_bytes()
    except (der.DerError, IndexError, TypeError, AttributeError):
        return None
    if enc_oid not in ENC_OIDS:
        return None
    cname, klen, mode = ENC_OIDS[enc_oid]
    desc = {"cipher": cname, "keylen": klen, "mode": mode}
    if kdf_oid == "1.2.840.113549.1.5.12":
        salt, count = kp[0].as_bytes(), kp[1].as_int()
        prf = "sha1"
        for m in list(kp.children)[2:]:
            if m.children is not None:
                oid = m[0].as_oid()
                if oid not in PRF_OIDS:
                    return None
                prf = PRF_OIDS[oid]
        desc.update(kdf="pbkdf2", prf=prf, count=count)
        try:
            key = hashlib.pbkdf2_hmac(prf, pwb, salt, count, klen)
        except ValueError:
            return None
    elif kdf_oid == "1.3.6.1.4.1.11591.4.11":
        salt, N, r, p_ = kp[0].as_bytes(), kp[1].as_int(), kp[2].as_int(), kp[3].as_int()
        desc.update(kdf="scrypt", N=N, r=r, p=p_)
        key = hashlib.scrypt(pwb, salt=salt, n=N, r=r, p=p_, dklen=klen, maxmem=1 << 30)
    else:
        return None
    bc_ = modes.aes_bc(key) if cname == "AES" else oracles.bc("DES3", key)
    if mode == "CBC":
        bs = 16 if cname == "AES" else 8
        if len(blob) == 0 or len(blob) % bs:
            raise ValueError("ciphertext not block aligned")
        pt = modes.cbc_decrypt(bc_, iv, blob)
        n = pt[-1]
        if not 1 <= n <= bs or pt[-n:] != bytes([n]) * n:
            raise ValueError("wrong padding after decryption")
        return pt[:-n], desc
    pt = modes.gcm_decrypt(bc_, iv, b"", blob[:-16], blob[-16:])
    if pt is None:
        raise ValueError("GCM tag mismatch")
    return pt, desc


def check_independent(c, data, comp, pw, rec, info):
    """Second, independent parser."""
    fam, fmt, private = c["fam"], c["format"], c["private"]
    if fmt == "OpenSSH":
        text = data if isinstance(data, str) else data.decode()
        parts = text.split(" ")
        fields = ssh_fields(base64.b64decode(parts[1]))
        if fields[0].decode() != parts[0]:
            raise Violation("export/openssh/type-mismatch", "key type differs between text and blob", **info)
        if fam == "rsa":
            e, n = (int.from_bytes(f, "big", signed=True) for f in fields[1:3])
            if (n, e) != (comp["n"], comp["e"]) or fields[1][0] & 0x80 or fields[2][0] & 0x80:
                raise Violation("export/openssh/rsa-mpint", "OpenSSH RSA blob does not carry (e, n) as positive mpints", **info)
        elif fam == "dsa":
            p, q, g, y = (int.from_bytes(f, "big", signed=True) for f in fields[1:5])
            if (p, q, g, y) != (comp["p"], comp["q"], comp["g"], comp["y"]):
                raise Violation("export/openssh/dsa-mpint", "OpenSSH DSA blob does not carry (p, q, g, y) as positive mpints", **info)
        elif c["curve"] == "ed25519":
            if fields[1] != comp["pub"]:
                raise Violation("export/openssh/ed25519", "OpenSSH Ed25519 blob wrong", **info)
        else:
            C = ec.CURVES[keys.REFNAME[c["curve"]]]
            P = ec.sec1_decode(C, fields[2], allow_infinity=False)
            if P != (comp["x"], comp["y"]):
                raise Violation("export/openssh/ecdsa-point", "OpenSSH ECDSA blob point wrong", **info)
        rec.event("independent:own-openssh")
        return
    if fmt == "SEC1":
        C = ec.CURVES[keys.REFNAME[c["curve"]]]
        P = ec.sec1_decode(C, bytes(data), allow_infinity=False)
        if P != (comp["x"], comp["y"]):
            raise Violation("export/sec1/point", "SEC1 encoding decodes to another point", **info)
        want_len = 1 + C["size"] * (1 if c.get("compress") else 2) if "size" in C else None
        if want_len and len(data) != want_len:
            raise Violation("export/sec1/length", "SEC1 encoding has %d bytes, expected %d" % (len(data), want_len), **info)
        rec.event("independent:own-sec1")
        return
    if fmt == "raw":
        if bytes(data) != comp["pub"]:
            raise Violation("export/raw/bytes", "raw public key differs from RFC 7748/8032 encoding", **info)
        rec.event("independent:own-raw")
        return
    raw = data if isinstance(data, bytes) else data.encode()
    pwb = None
    if pw is not None:
        pwb = pw.encode("utf-8") if isinstance(pw, str) else bytes(pw)
    prot = c.get("protection") or ""
    if pw is not None and prot:
        # own PBES2 reader: the algorithm identifiers written into the file must be the registered ones for what was asked for, and the
        # content must decrypt (hashlib KDF + reference cipher) to a key file that the independent parser reads as the same key
        pw_l1 = None
        if isinstance(pw, str):
            try:
                pw_l1 = pw.encode("latin-1")       # the library documents str passphrases as latin-1
            except UnicodeEncodeError:
                pw_l1 = None
        else:
            pw_l1 = bytes(pw)
        if pw_l1 is not None:
            try:
                opened = own_pbes2_open(raw, pw_l1)
            except ValueError as ex:
                raise Violation("export/pbes2/own-reader-cannot-decrypt", "an independent PBES2 reader (hashlib + reference cipher) cannot open the export: %s" % ex, **info)
            if opened is not None:
                inner, desc = opened
                if prot.startswith("PBKDF2WithHMAC-"):
                    want = PRF_OF_PROTECTION.get(prot[len("PBKDF2WithHMAC-"):].split("And")[0])
                    if want and desc.get("prf") != want:
                        raise Violation("export/pbes2/prf-oid-mismatch", "protection %s wrote the PRF identifier of %s" % (prot, desc.get("prf")), **info)
                try:
                    parsed_inner = lc.decode_key(inner, None)
                except lc.LibCryptoError:
                    parsed_inner = None
                if parsed_inner is not None and bool(parsed_inner.get("private")) != bool(private):
                    raise Violation("export/%s/privacy-changed" % fam, "the decrypted PKCS#8 content is not a private key", **info)
                rec.event("independent:own-pbes2:" + desc.get("kdf", "?"))
    try:
        parsed = lc.decode_key(raw, pwb)
    except lc.LibCryptoError as ex:
        mainstream = (not prot) or (prot.startswith("PBKDF2WithHMAC-") and prot.split("-", 1)[1].split("And")[0] in MAINSTREAM_PRF and prot.endswith("-CBC")) \
            or (prot.startswith("scryptAnd") and prot.endswith("-CBC"))
        non_ascii_pw = isinstance(pw, str) and any(ord(ch) > 127 for ch in pw)
        legacy_pem = fmt == "PEM" and pw is not None and not c.get("protection") and (c.get("pkcs") == 1 or c.get("pkcs8") is False or c.get("use_pkcs8") is False)
        if mainstream and not non_ascii_pw and not legacy_pem and pw != b"\xff\x00\x01":
            raise Violation("export/%s/independent-parser-rejects" % fam, "libcrypto cannot parse the exported key: %s" % str(ex)[:200], **info)
        rec.event("independent:unavailable")
        return
    exp = expected_components(comp, fam, private)
    if fam == "rsa":
        got = {"n": parsed.get("n"), "e": parsed.get("e")}
        if private:
            got.update(d=parsed.get("d"), p=parsed.get("p"), q=parsed.get("q"))
            # libcrypto orders the factors as stored in the file; equality as a set
            if sorted([got["p"], got["q"]]) == sorted([exp["p"], exp["q"]]):
                got["p"], got["q"] = exp["p"], exp["q"]
    elif fam == "dsa":
        got = {"y": parsed.get("pub"), "g": parsed.get("g"), "p": parsed.get("p"), "q": parsed.get("q")}
        if private:
            got["x"] = parsed.get("priv")
    elif "seed" in comp:
        got = {"pub": parsed.get("pub")}
        if private:
            got["seed"] = parsed.get("priv")
    else:
        got = {"x": parsed.get("x"), "y": parsed.get("y")}
        if got["x"] is None and parsed.get("pub"):
            C = ec.CURVES[keys.REFNAME[c["curve"]]]
            P = ec.sec1_decode(C, parsed["pub"], allow_infinity=False)
            got = {"x": P[0], "y": P[1]}
        if private:
            got["d"] = parsed.get("priv")
    if bool(parsed.get("private")) != bool(private):
        raise Violation("export/%s/privacy-changed" % fam, "independent parser sees a %s key" % ("private" if parsed.get("private") else "public"), **info)
    if got != exp:
        bad = [k for k in exp if got.get(k) != exp[k]]
        raise Violation("export/%s/independent-parser-differs" % fam, "libcrypto parses other values for %s" % bad, **info)
    rec.event("independent:libcrypto")


def run_rt(case, rec):
    from Crypto.PublicKey import RSA, DSA, ECC
    fam = case["fam"]
    k, comp = build_key(case)
    kw = export_kwargs(case)
    info = {kk: vv for kk, vv in case.items() if kk not in ("seed",)}
    kind, data = libcall(k.export_key, allowed=(ValueError, TypeError), bucket="export/%s" % fam, **kw)
    if kind == "exc":
        rec.event("export-refused:%s:%s" % (fam, case["format"]))
        raise Skip()
    imp = {"rsa": RSA.import_key, "dsa": DSA.import_key, "ecc": ECC.import_key}[fam]
    pw = case.get("passphrase")
    ikw = {}
    if fam == "ecc" and case["format"] in ("SEC1", "raw"):
        ikw["curve_name"] = case["curve"]
    if fam == "ecc" and case["format"] == "raw":
        # raw EdDSA/XDH keys are imported through the dedicated functions (documented)
        from Crypto.Signature import eddsa
        from Crypto.Protocol import DH
        imp2 = {"ed25519": eddsa.import_public_key, "ed448": eddsa.import_public_key, "curve25519": DH.import_x25519_public_key,
                "curve448": DH.import_x448_public_key}[case["curve"]]
        kind, k2 = libcall(imp2, data, allowed=(ValueError,), bucket="import/raw")
    else:
        kind, k2 = libcall(imp, data, pw, allowed=(ValueError, IndexError, TypeError) if fam == "rsa" else (ValueError,), bucket="import/%s" % fam, **ikw)
    if kind == "exc":
        raise Violation("roundtrip/%s/import-rejects-own-export" % fam, "import_key(export_key(k)) raised %s: %s" % (type(k2).__name__, k2), **info)
    # identity, both by == and component-wise on Python ints
    exp = expected_components(comp, fam, case["private"])
    got = components_of(k2, fam)
    if fam == "rsa" and case["private"] and sorted([got["p"], got["q"]]) == sorted([exp["p"], exp["q"]]):
        got["p"], got["q"] = exp["p"], exp["q"]
    if got != exp or k2.has_private() != case["private"]:
        bad = [x for x in exp if got.get(x) != exp[x]]
        raise Violation("roundtrip/%s/components-differ" % fam, "re-imported key differs in %s" % bad, **info)
    if not (k2 == k) or (k2 != k):
        raise Violation("roundtrip/%s/not-equal" % fam, "import_key(export_key(k)) != k although all components are equal", **info)
    # canonical form
    if case["format"] == "DER":
        raw = bytes(data)
        try:
            node = der.parse(raw)
            if der.reencode(node) != raw:
                raise HarnessError("re-encode mismatch")
        except der.DerError as ex:
            raise Violation("export/%s/der-not-canonical" % fam, "strict DER reader rejects the export: %s" % ex, **info)
    if case["format"] == "PEM":
        text = data.decode() if isinstance(data, bytes) else data
        lines = text.split("\n")
        if not (lines[0].startswith("-----BEGIN ") and lines[0].endswith("-----") and lines[-1] == lines[0].replace("BEGIN", "END")):
            raise Violation("export/%s/pem-armour" % fam, "PEM markers malformed", **info)
        body = [l for l in lines[1:-1] if l and ":" not in l]
        if any(len(l) > 64 for l in body) or any(len(l) != 64 for l in body[:-1]):
            raise Violation("export/%s/pem-lines" % fam, "PEM body is not 64-column base64", **info)
        if pw is None:
            try:
                raw = base64.b64decode("".join(body), validate=True)
                node = der.parse(raw)
                if der.reencode(node) != raw:
                    raise HarnessError("re-encode mismatch")
            except der.DerError as ex:
                raise Violation("export/%s/der-not-canonical" % fam, "DER inside PEM rejected by the strict reader: %s" % ex, **info)
    check_independent(case, data, comp, pw, rec, info)
    # wrong / missing passphrase
    if pw is not None and case["wrong"] != "right":
        if case["wrong"] == "missing":
            use = None
        elif isinstance(pw, str):
            use = pw + "x"
        else:
            use = bytes(pw) + b"x"
        kind, r = libcall(imp, data, use, allowed=(ValueError, IndexError, TypeError) if fam == "rsa" else (ValueError,), bucket="import/%s/wrong-passphrase" % fam)
        if kind == "ok":
            # legacy PEM encryption has no integrity: a wrong key may "decrypt" to garbage that still parses only with negligible probability
            raise Violation("import/%s/%s-passphrase-accepted" % (fam, case["wrong"]), "protected key imported with a %s passphrase" % case["wrong"], **info)
        if not isinstance(r, ValueError):
            if not (fam == "rsa"):
                raise Violation("import/%s/wrong-passphrase-exception" % fam, "%s raised" % type(r).__name__, **info)
    lz = any(isinstance(v, int) and ((v.bit_length() + 7) // 8 * 8 - v.bit_length()) >= 8 for v in exp.values())
    if pw is not None or case.get("compress") or case.get("dkind") in ("leading-zero", "high-bit", "small", "n-1") or lz:
        rec.nt(fam, case.get("bits") or case.get("curve") or tuple(case.get("pair", [])), case["private"], case["format"], case.get("pkcs"), case.get("pkcs8"),
               case.get("use_pkcs8"), case.get("compress"), case.get("protection"), pw is not None, case.get("dkind"))
    rec.event("roundtrip:%s:%s:%s" % (fam, case["format"], "protected" if pw is not None else "clear"))
    rec.sample(info)


# ------------------------------------------------------------------ equality model
KINDS = ["rsa", "rsa-d2", "rsa2", "rsa-e3", "dsa", "dsa2", "p256", "p256b", "p384", "ed25519", "ed25519b", "ed448", "curve25519", "curve448", "elgamal", "elgamal2", "nonkey-int",
         "nonkey-none", "nonkey-str", "nonkey-tuple"]


def eq_key(kind, private):
    from Crypto.PublicKey import RSA, DSA, ECC, ElGamal
    if kind == "rsa":
        k, ident = RSA.construct(keys.rsa_numbers(1024, 0)), ("rsa", keys.rsa_numbers(1024, 0)[:3])
    elif kind == "rsa-d2":
        # same (n, e), another valid private exponent d + lcm(p-1, q-1): a different component value
        import math
        n, e, d, p, q = keys.rsa_numbers(1024, 0)
        d2 = d + math.lcm(p - 1, q - 1)
        k = RSA.construct((n, e, d2, p, q))
        ident = ("rsa", (n, e, d2 if private else d))
    elif kind == "rsa2":
        k, ident = RSA.construct(keys.rsa_numbers(1024, 1)), ("rsa", keys.rsa_numbers(1024, 1)[:3])
    elif kind == "rsa-e3":
        k, ident = RSA.construct(keys.rsa_numbers(1024, 0, 3)), ("rsa", keys.rsa_numbers(1024, 0, 3)[:3])
    elif kind in ("dsa", "dsa2"):
        nums = keys.dsa_numbers(1024, 160, 0 if kind == "dsa" else 1)
        k, ident = DSA.construct(nums), ("dsa", nums)
    elif kind in ("p256", "p256b", "p384"):
        curve = "p384" if kind == "p384" else "p256"
        d = keys.ecc_scalar(curve, kind.encode())
        k, ident = ECC.construct(curve=curve, d=d), ("ecc", curve, d)
    elif kind in ("ed25519", "ed25519b", "ed448", "curve25519", "curve448"):
        curve = kind.rstrip("b")
        sd = keys.ecc_seed(curve, kind.encode())
        k, ident = ECC.construct(curve=curve, seed=sd), ("ecc", curve, sd)
    elif kind in ("elgamal", "elgamal2"):
        p, g, y, x = keys.elgamal_numbers(256, 0 if kind == "elgamal" else 1)
        k, ident = ElGamal.construct((p, g, y, x)), ("elgamal", (p, g, y, x))
        if not private:
            k = ElGamal.construct((p, g, y))
        return k, ident + (private,)
    else:
        return {"nonkey-int": 5, "nonkey-none": None, "nonkey-str": "key", "nonkey-tuple": (1, 2)}[kind], ("nonkey", kind)
    if not private:
        k = k.public_key()
    return k, ident + (private,)


def strat_eq(tier):
    return st.fixed_dictionaries({"a": st.sampled_from(KINDS[:16]), "b": st.sampled_from(KINDS), "pa": st.booleans(), "pb": st.booleans(),
                                  "reimport": st.booleans()})


def run_eq(case, rec):
    a, ida = eq_key(case["a"], case["pa"])
    b, idb = eq_key(case["b"], case["pb"])
    if case["reimport"] and idb[0] in ("rsa", "dsa", "ecc"):
        from Crypto.PublicKey import RSA, DSA, ECC
        imp = {"rsa": RSA.import_key, "dsa": DSA.import_key, "ecc": ECC.import_key}[idb[0]]
        b = imp(b.export_key(format="DER" if idb[0] != "ecc" or b.curve not in ("Curve25519", "Curve448") or not b.has_private() else "DER"))
    model = ida == idb
    info = dict(case)
    kind, r = libcall(lambda: a == b, allowed=(), bucket="eq/%s-vs-%s" % (ida[0], idb[0]))
    kind, r2 = libcall(lambda: a != b, allowed=(), bucket="ne/%s-vs-%s" % (ida[0], idb[0]))
    if r is NotImplemented or r2 is NotImplemented:
        r, r2 = False, True
    if bool(r) != model or bool(r2) == model:
        raise Violation("eq/%s-vs-%s/wrong" % (ida[0], idb[0]), "%s(%s) == %s(%s) gives %r (!= gives %r), model says %s" % (
            case["a"], "priv" if case["pa"] else "pub", case["b"], "priv" if case["pb"] else "pub", r, r2, model), **info)
    rec.nt(ida[0], idb[0], case["a"] == case["b"], case["pa"], case["pb"], model, case["reimport"])
    rec.event("eq:%s-vs-%s:%s" % (ida[0], idb[0], model))
    rec.sample(info)


CHECKS = [
    Check("roundtrip", run=run_rt, strategy=strat_rt, examples=(3000, 60000), shards=(16, 16),
          rule="export_key option matrix -> import_key identity (== and component-wise), canonical DER/PEM, independent parser agreement, wrong/missing passphrase refused"),
    Check("equality", run=run_eq, strategy=strat_eq, examples=(2500, 20000), shards=(4, 8),
          rule="== and != on generated key pairs (same key re-imported, other key, public vs private, other type, non-key) equal the model; neither raises"),
]
