"""C19 — objects are independent, sequentially and across threads; inputs never mutated."""
import gc
import hashlib
import importlib
import json
import os
import subprocess
import sys
import threading

from hypothesis import strategies as st

from ..core import Recorder, Check, Violation, HarnessError, Skip, libcall, enc, dec
from .. import gen, keys

META = {
    "rule": "(i) sequential interleaving: a generated program over 2..5 live objects of mixed kinds (hashes, XOFs, HMAC/CMAC/KMAC/Poly1305, block "
            "modes, stream ciphers, AEADs, EC points) with operations 'apply op to object i', copy (where offered), del + gc.collect(); every "
            "output must equal that of a fresh object replaying only the object's own history (a clone: the original's history up to the copy "
            "plus its own). (ii) input preservation: snapshot of every caller-owned input (bytearray messages, keys, AAD, hash/XOF objects "
            "handed to signers, points, key objects) before and after public calls. (iii) threads: 2..16 threads run independent generated "
            "workloads on their own objects with sys.setswitchinterval(1e-6); each thread's outputs must equal the serial run; first-use races: "
            "in a fresh interpreter per case, N threads released by a barrier make the first use of the same curve. Non-trivial = >= 2 objects "
            "of the same class with interleaved operations, or a copy followed by divergent use, or a thread case with >= 4 threads sharing a "
            "curve/cipher type; distinct by (object-kind multiset, interleaving shape, thread count)",
    "assumptions": ["schedules are sampled, not enumerated: the claim is 'no divergence in N sampled schedules'",
                    "a time-out in a thread case is inconclusive, never a violation"],
    "unexplored": ["un-sampled native interleavings (ThreadSanitizer needs an instrumented CPython)"],
}

# ------------------------------------------------------------------ object kinds
HASH_KINDS = ["MD5", "SHA1", "SHA256", "SHA512", "SHA3_256+uad", "BLAKE2b+uad", "keccak+uad", "HMAC-SHA256", "HMAC-SHA1", "CMAC-AES+uad", "CMAC-DES3+uad",
              "MD2", "RIPEMD160", "SHA224", "SHA384"]
FINAL_KINDS = ["KMAC128", "Poly1305-AES", "SHA3_512", "BLAKE2s", "TupleHash128", "CMAC-AES", "HMAC-SHA3_256"]   # (HMAC over a finalising hash finalises too)      # digest finalises: later updates are not generated
XOF_KINDS = ["SHAKE128", "SHAKE256", "cSHAKE128", "TurboSHAKE128", "KangarooTwelve"]
CIPHER_KINDS = ["AES-CBC", "AES-CTR", "AES-OFB", "AES-CFB", "DES3-CBC", "ChaCha20", "Salsa20", "ARC4", "Blowfish-CTR", "AES-ECB", "CAST-OFB"]
AEAD_KINDS = ["AES-GCM", "AES-EAX", "AES-OCB", "ChaCha20_Poly1305", "AES-CCM"]
POINT_KINDS = ["p256", "p384", "ed25519", "ed448", "p521"]
ALL_KINDS = HASH_KINDS + FINAL_KINDS + XOF_KINDS + CIPHER_KINDS + AEAD_KINDS + POINT_KINDS
COPYABLE = set(HASH_KINDS) | {"SHAKE128", "SHAKE256", "Poly1305-AES", "CMAC-AES", "SHA3_512"} | set(POINT_KINDS)


def make(kind, key):
    """Fresh object of a kind (key: 32 bytes of per-object parameter material)."""
    H = "Crypto.Hash."
    base = kind.split("+")[0]
    uad = {"update_after_digest": True} if kind.endswith("+uad") else {}
    if base in ("MD5", "SHA1", "SHA256", "SHA512", "MD2", "RIPEMD160", "SHA224", "SHA384"):
        return importlib.import_module(H + base).new()
    if base in ("SHA3_256", "SHA3_512"):
        return importlib.import_module(H + base).new(**uad)
    if base in ("BLAKE2b", "BLAKE2s"):
        return importlib.import_module(H + base).new(digest_bytes=32, key=key[:16], **uad)
    if base == "keccak":
        return importlib.import_module(H + "keccak").new(digest_bits=256, **uad)
    if base.startswith("HMAC-"):
        from Crypto.Hash import HMAC
        return HMAC.new(key, digestmod=importlib.import_module(H + base[5:]))
    if base == "CMAC-AES":
        from Crypto.Hash import CMAC
        from Crypto.Cipher import AES
        return CMAC.new(key[:16], ciphermod=AES, **uad)
    if base == "CMAC-DES3":
        from Crypto.Hash import CMAC
        from Crypto.Cipher import DES3
        return CMAC.new(bytes(range(2, 50, 2)), ciphermod=DES3, **uad)
    if base == "KMAC128":
        return importlib.import_module(H + base).new(key=key, mac_len=16)
    if base == "Poly1305-AES":
        from Crypto.Hash import Poly1305
        from Crypto.Cipher import AES
        return Poly1305.new(key=key, cipher=AES, nonce=key[:16])
    if base == "TupleHash128":
        return importlib.import_module(H + base).new(digest_bytes=32)
    if base in ("SHAKE128", "SHAKE256", "TurboSHAKE128"):
        return importlib.import_module(H + base).new()
    if base == "cSHAKE128":
        return importlib.import_module(H + base).new(custom=key[:7])
    if base == "KangarooTwelve":
        return importlib.import_module(H + base).new(custom=key[:3])
    C = "Crypto.Cipher."
    if base in ("ChaCha20", "Salsa20"):
        return importlib.import_module(C + base).new(key=key, nonce=key[:8])
    if base == "ARC4":
        return importlib.import_module(C + base).new(key[:16])
    if base == "ChaCha20_Poly1305":
        return importlib.import_module(C + base).new(key=key, nonce=key[:12])
    if "-" in base:
        cname, mode = base.split("-")
        f = importlib.import_module(C + cname)
        k = {"AES": key[:16], "DES3": bytes(range(2, 50, 2)), "Blowfish": key[:16], "CAST": key[:16]}[cname]
        bs = f.block_size
        m = getattr(f, "MODE_" + mode)
        if mode in ("CBC", "OFB", "CFB"):
            return f.new(k, m, iv=key[:bs])
        if mode == "CTR":
            return f.new(k, m, nonce=key[:bs // 2])
        if mode == "ECB":
            return f.new(k, m)
        if mode == "GCM":
            return f.new(k, m, nonce=key[:12])
        if mode == "EAX":
            return f.new(k, m, nonce=key[:16])
        if mode == "OCB":
            return f.new(k, m, nonce=key[:15])
        if mode == "CCM":
            return f.new(k, m, nonce=key[:11], msg_len=4000)
    if base in POINT_KINDS:
        from Crypto.PublicKey import ECC
        G = ECC._curves[base].G
        if key[:1] and key[0] % 3 == 0:
            # an accumulator that starts from the neutral element the API hands out (acc = P.point_at_infinity(); acc += ...): every call
            # must return an object of its own
            return G.point_at_infinity()
        return G.copy()
    raise HarnessError("unknown kind " + kind)


def family(kind):
    if kind in HASH_KINDS:
        return "hash"
    if kind in FINAL_KINDS:
        return "final"
    if kind in XOF_KINDS:
        return "xof"
    if kind in CIPHER_KINDS:
        return "cipher"
    if kind in AEAD_KINDS:
        return "aead"
    return "point"


def block_of(kind):
    if kind in ("AES-CBC", "AES-ECB"):
        return 16
    if kind == "DES3-CBC":
        return 8
    return 1


def apply(obj, kind, op, data, state):
    """Apply one operation; returns a JSON-able output (or None). `state` holds per-object flags (finalised, reading)."""
    fam = family(kind)
    if fam in ("hash", "final"):
        if op == "update":
            if state.get("final"):
                return "skipped"
            if kind == "TupleHash128":
                obj.update(data)
            else:
                obj.update(data)
            return None
        if fam == "final":
            state["final"] = True
        return bytes(obj.digest()).hex()
    if fam == "xof":
        if op == "update":
            if state.get("reading"):
                return "skipped"
            obj.update(data)
            return None
        state["reading"] = True
        return bytes(obj.read(len(data) % 40)).hex()
    if fam == "cipher":
        bs = block_of(kind)
        d = data[:len(data) - len(data) % bs] if bs > 1 else data
        return bytes(obj.encrypt(d)).hex()
    if fam == "aead":
        st_ = state.get("phase", "aad")
        if op == "update":
            if st_ != "aad":
                return "skipped"
            obj.update(data)
            return None
        if op == "digest" or st_ == "done":
            if st_ == "done":
                return "skipped"
            state["phase"] = "done"
            out = b""
            if kind == "AES-OCB" and st_ == "enc":
                out = bytes(obj.encrypt())
            if kind == "AES-CCM":
                # declared msg_len must be met: pad the message up to it
                need = 4000 - state.get("fed", 0)
                out += bytes(obj.encrypt(bytes(need)))
            return (out + bytes(obj.digest())).hex()
        state["phase"] = "enc"
        state["fed"] = state.get("fed", 0) + len(data)
        return bytes(obj.encrypt(data)).hex()
    # points
    from Crypto.PublicKey import ECC
    G = ECC._curves[kind].G
    if op == "update":
        k = int.from_bytes(data[:4], "big") + 1
        obj *= k
    elif op == "digest":
        obj += G
    else:
        obj.double()
    if obj.is_point_at_infinity():
        return "inf"
    return [int(obj.x), int(obj.y)]


OPS = ["update", "update", "digest", "use"]


@st.composite
def program(draw, nobj_max=5, nsteps_max=40):
    nobj = draw(st.integers(2, nobj_max))
    same = draw(st.booleans())
    k0 = draw(st.sampled_from(ALL_KINDS))
    objs = []
    for i in range(nobj):
        kind = k0 if (same and i < 2) or draw(st.integers(0, 2)) == 0 else draw(st.sampled_from(ALL_KINDS))
        objs.append({"kind": kind, "key": draw(st.binary(min_size=32, max_size=32)) if not (same and i == 1 and draw(st.booleans())) else objs[0]["key"]})
    steps = []
    for _ in range(draw(st.integers(3, nsteps_max))):
        what = draw(st.sampled_from(["op", "op", "op", "op", "op", "copy", "del"]))
        steps.append([what, draw(st.integers(0, 9)), draw(st.sampled_from(OPS)), draw(st.one_of(st.binary(max_size=40), gen.data_of(st.sampled_from([15, 16, 17, 33, 64, 100]))))])
    return {"objs": objs, "steps": steps}


def replay(history, kind, key):
    """Outputs of a fresh object replaying a history (list of (op, data))."""
    obj = make(kind, key)
    state = {}
    outs = []
    for op, data in history:
        outs.append(apply(obj, kind, op, data, state))
    return outs


def run_program(case, rec, collect_only=False):
    """Interpret the program. Each live object carries: kind, key, history (own ops since creation incl. inherited), outputs."""
    live = []
    for o in case["objs"]:
        live.append({"kind": o["kind"], "key": o["key"], "obj": make(o["kind"], o["key"]), "hist": [], "outs": [], "state": {}})
    shape = []
    copies = 0
    for what, idx, op, data in case["steps"]:
        if not live:
            break
        t = live[idx % len(live)]
        if what == "op":
            k, out = libcall(apply, t["obj"], t["kind"], op, data, t["state"], allowed=(), bucket="indep/%s/%s" % (t["kind"], op))
            t["hist"].append((op, data))
            t["outs"].append(out)
            shape.append(idx % len(live))
        elif what == "copy":
            if not hasattr(t["obj"], "copy") or len(live) >= 8:
                continue
            if family(t["kind"]) == "final" and t["state"].get("final"):
                continue
            k, c2 = libcall(t["obj"].copy, allowed=(NotImplementedError, AttributeError, TypeError), bucket="indep/%s/copy" % t["kind"])
            if k == "exc":
                continue        # copy() not offered by this class
            live.append({"kind": t["kind"], "key": t["key"], "obj": c2, "hist": list(t["hist"]), "outs": list(t["outs"]), "state": dict(t["state"])})
            copies += 1
            shape.append("c")
        else:
            if len(live) <= 1:
                continue
            victim = live.pop(idx % len(live))
            # check the victim's outputs before it disappears
            exp = replay(victim["hist"], victim["kind"], victim["key"])
            if exp != victim["outs"]:
                raise Violation("indep/%s/outputs-differ" % victim["kind"], "object outputs differ from a fresh object replaying only its own history", kinds=[o["kind"] for o in case["objs"]])
            del victim
            gc.collect()
            shape.append("d")
    results = []
    for t in live:
        exp = replay(t["hist"], t["kind"], t["key"])
        results.append(t["outs"])
        if not collect_only and exp != t["outs"]:
            i = next(i for i in range(len(exp)) if exp[i] != t["outs"][i])
            raise Violation("indep/%s/outputs-differ" % t["kind"],
                            "output #%d of a %s object differs from a fresh object replaying only its own history (program interleaves %d objects, %d copies)" % (
                                i, t["kind"], len(case["objs"]), copies), kinds=[o["kind"] for o in case["objs"]])
    kinds = sorted(o["kind"] for o in case["objs"])
    same_class = len(set(kinds)) < len(kinds)
    if rec is not None:
        if (same_class and len(set(s for s in shape if isinstance(s, int))) >= 2) or copies:
            rec.nt(tuple(kinds)[:4], copies, "d" in shape, len(shape) // 8)
        rec.event("program:objects=%d" % len(case["objs"]))
        if copies:
            rec.event("program:with-copy")
        rec.sample({"kinds": kinds, "shape": shape[:30]})
    return results


def strat_seq(tier):
    return program(5, 40 if tier == "quick" else 80)


def run_seq(case, rec):
    run_program(case, rec)


# ------------------------------------------------------------------ (ii) input preservation
PRES = ["hash-update", "cipher-encrypt", "aead", "sign-pkcs1", "sign-pss", "sign-dss", "sign-eddsa", "sign-eddsa-ph", "verify-dss", "kdf", "strxor", "pad", "point-ops",
        "key-agreement", "hpke", "rsa-oaep", "integer-ops", "hmac-key", "import-export", "bcrypt", "shamir"]


@st.composite
def strat_pres(draw, tier):
    return {"what": draw(st.sampled_from(PRES)), "data": draw(st.binary(min_size=1, max_size=64)), "data2": draw(st.binary(min_size=1, max_size=32)),
            "seed": draw(st.binary(min_size=8, max_size=8)), "kind": draw(st.sampled_from(HASH_KINDS + CIPHER_KINDS + AEAD_KINDS))}


_PK = {}


def pk(name):
    if name not in _PK:
        from Crypto.PublicKey import RSA, DSA, ECC
        if name == "rsa":
            _PK[name] = RSA.construct(keys.rsa_numbers(1024))
        elif name == "dsa":
            _PK[name] = DSA.construct(keys.dsa_numbers())
        elif name in ("p256", "p384"):
            _PK[name] = ECC.construct(curve=name, d=keys.ecc_scalar(name, b"c19"))
        else:
            _PK[name] = ECC.construct(curve=name, seed=keys.ecc_seed(name, b"c19"))
    return _PK[name]


def key_snapshot(k):
    try:
        if hasattr(k, "seed") and k.curve in ("Ed25519", "Ed448", "Curve25519", "Curve448") and k.has_private():
            return ("ecc", bytes(k.seed), int(k.pointQ.x))
    except Exception:
        pass
    name = type(k).__name__
    if name == "RsaKey":
        return ("rsa", int(k.n), int(k.e), int(k.d) if k.has_private() else None, int(k.p) if k.has_private() else None)
    if name == "DsaKey":
        return ("dsa", int(k.p), int(k.q), int(k.g), int(k.y), int(k.x) if k.has_private() else None)
    return ("ecc", int(k.d) if k.has_private() else None, int(k.pointQ.x), int(k.pointQ.y) if hasattr(k.pointQ, "y") else None)


def run_pres(case, rec):
    what, data, data2 = case["what"], case["data"], case["data2"]
    buf = bytearray(data)
    buf2 = bytearray(data2)
    mv = memoryview(bytearray(b"\xAA" * 3 + data + b"\xBB" * 3))[3:3 + len(data)]
    snaps = []           # (name, thunk returning current value, value before)

    def watch(name, thunk):
        snaps.append((name, thunk, thunk()))
    watch("bytearray", lambda: bytes(buf))
    watch("bytearray2", lambda: bytes(buf2))
    watch("memoryview", lambda: bytes(mv.obj))
    from Crypto.Hash import SHA256, SHA512, SHAKE256
    if what == "hash-update":
        k = case["kind"] if family(case["kind"]) == "hash" else "SHA256"
        o = make(k, data2.ljust(32, b"k"))
        o.update(buf)
        o.update(mv)
        o.digest()
    elif what == "cipher-encrypt":
        k = case["kind"] if family(case["kind"]) == "cipher" else "AES-CTR"
        o = make(k, data2.ljust(32, b"k"))
        bs = block_of(k)
        b3 = bytearray(data[:len(data) - len(data) % bs]) if bs > 1 else buf
        watch("cipher-input", lambda: bytes(b3))
        o.encrypt(b3)
        o.encrypt(mv[:len(mv) - len(mv) % bs] if bs > 1 else mv)
    elif what == "aead":
        k = case["kind"] if family(case["kind"]) == "aead" and case["kind"] != "AES-CCM" else "AES-GCM"
        keyb = bytearray(data2.ljust(32, b"k"))
        watch("key-buffer", lambda: bytes(keyb))
        o = make(k, bytes(keyb))
        o.update(buf2)
        ct = o.encrypt(buf)
        if k == "AES-OCB":
            ct += o.encrypt()
        tag = bytearray(o.digest())
        d = make(k, bytes(keyb))
        d.update(buf2)
        ctb = bytearray(ct)
        watch("ciphertext", lambda: bytes(ctb))
        watch("tag", lambda: bytes(tag))
        d.decrypt_and_verify(ctb, tag)
    elif what in ("sign-pkcs1", "sign-pss", "rsa-oaep"):
        key = pk("rsa")
        watch("key", lambda: key_snapshot(key))
        h = SHA256.new(buf)
        watch("hash-object", lambda: bytes(h.digest()))
        if what == "sign-pkcs1":
            from Crypto.Signature import pkcs1_15
            s = bytearray(pkcs1_15.new(key).sign(h))
            watch("signature", lambda: bytes(s))
            pkcs1_15.new(key.public_key()).verify(h, s)
        elif what == "sign-pss":
            from Crypto.Signature import pss
            s = bytearray(pss.new(key).sign(h))
            watch("signature", lambda: bytes(s))
            pss.new(key.public_key()).verify(h, s)
        else:
            from Crypto.Cipher import PKCS1_OAEP
            lab = bytearray(data2)
            watch("label", lambda: bytes(lab))
            c = bytearray(PKCS1_OAEP.new(key.public_key(), label=lab).encrypt(buf[:40]))
            watch("ciphertext", lambda: bytes(c))
            PKCS1_OAEP.new(key, label=lab).decrypt(c)
    elif what in ("sign-dss", "verify-dss"):
        from Crypto.Signature import DSS
        key = pk("p256") if case["seed"][0] % 2 else pk("dsa")
        watch("key", lambda: key_snapshot(key))
        h = SHA256.new(buf)
        watch("hash-object", lambda: bytes(h.digest()))
        s = bytearray(DSS.new(key, "deterministic-rfc6979").sign(h))
        watch("signature", lambda: bytes(s))
        DSS.new(key.public_key() if hasattr(key, "public_key") else key.publickey(), "fips-186-3").verify(h, s)
    elif what in ("sign-eddsa", "sign-eddsa-ph"):
        from Crypto.Signature import eddsa
        curve = "ed25519" if case["seed"][0] % 2 else "ed448"
        key = pk(curve)
        watch("key", lambda: key_snapshot(key))
        ctx = bytearray(data2)
        watch("context", lambda: bytes(ctx))
        if what == "sign-eddsa":
            m = bytes(buf)
            s = eddsa.new(key, "rfc8032", context=bytes(ctx)).sign(m)
            eddsa.new(key.public_key(), "rfc8032", context=bytes(ctx)).verify(m, s)
        else:
            h = SHA512.new(buf) if curve == "ed25519" else SHAKE256.new(buf)
            if curve == "ed25519":
                watch("hash-object", lambda: bytes(h.digest()))
            else:
                watch("xof-object", lambda: bytes(h.copy().read(64)))
            s = eddsa.new(key, "rfc8032").sign(h)
            eddsa.new(key.public_key(), "rfc8032").verify(h, s)
            if curve == "ed448" and bytes(h.copy().read(8)) != hashlib.shake_256(bytes(data)).digest(8):
                raise Violation("preserve/xof-object-consumed", "the SHAKE256 object handed to eddsa was squeezed by sign()/verify()")
    elif what == "kdf":
        from Crypto.Protocol import KDF
        KDF.PBKDF2(buf, buf2, 20, 3)
        KDF.HKDF(buf, 16, buf2, SHA256)
        KDF.scrypt(buf, buf2, 16, 4, 1, 1)
    elif what == "strxor":
        from Crypto.Util import strxor
        n = min(len(buf), len(buf2))
        a, b = bytearray(buf[:n]), bytearray(buf2[:n])
        watch("strxor-a", lambda: bytes(a))
        watch("strxor-b", lambda: bytes(b))
        out = bytearray(n)
        strxor.strxor(a, b)
        strxor.strxor(a, b, output=out)
        strxor.strxor_c(a, 7)
    elif what == "pad":
        from Crypto.Util import Padding
        p = Padding.pad(buf, 16)
        pb = bytearray(p)
        watch("padded", lambda: bytes(pb))
        Padding.unpad(pb, 16)
    elif what == "point-ops":
        from Crypto.PublicKey import ECC
        G = ECC._curves["p256"].G
        P = G * (int.from_bytes(data[:8], "big") + 2)
        Q = G * (int.from_bytes(data2[:8], "big") + 2)
        watch("P", lambda: (int(P.x), int(P.y)))
        watch("Q", lambda: (int(Q.x), int(Q.y)))
        watch("G", lambda: (int(G.x), int(G.y)))
        _ = P + Q
        _ = -P
        _ = P * 5
        _ = 7 * Q
        _ = P == Q
        _ = P.copy()
        R = P.copy()
        R += Q
        R.double()
    elif what in ("key-agreement", "hpke"):
        from Crypto.Protocol.DH import key_agreement
        from Crypto.Protocol import HPKE
        c = "p256" if case["seed"][0] % 2 else "curve25519"
        a, b = pk(c), pk(c)
        watch("key", lambda: key_snapshot(a))
        if what == "key-agreement":
            key_agreement(static_priv=a, static_pub=b.public_key(), kdf=lambda z: z)
        else:
            s = HPKE.new(receiver_key=a.public_key(), aead_id=HPKE.AEAD.AES128_GCM, info=bytes(buf2))
            ct = s.seal(buf, buf2)
            HPKE.new(receiver_key=a, aead_id=HPKE.AEAD.AES128_GCM, enc=s.enc, info=bytes(buf2)).unseal(ct, buf2)
    elif what == "integer-ops":
        from Crypto.Math.Numbers import Integer
        x, y = Integer(int.from_bytes(data, "big") + 3), Integer(int.from_bytes(data2, "big") | 1)
        watch("x", lambda: int(x))
        watch("y", lambda: int(y))
        _ = x + y, x * y, x % y, pow(x, 5, y), x.gcd(y), x >> 3, x << 3, x & y, x | y, x // y, x == y, x.sqrt()
        try:
            x.inverse(y)
        except ValueError:
            pass
    elif what == "hmac-key":
        from Crypto.Hash import HMAC
        h = HMAC.new(buf, buf2, SHA256)
        t = bytearray(h.digest())
        watch("tag", lambda: bytes(t))
        HMAC.new(buf, buf2, SHA256).verify(t)
    elif what == "import-export":
        from Crypto.PublicKey import ECC
        key = pk("p256")
        watch("key", lambda: key_snapshot(key))
        d = bytearray(key.export_key(format="DER"))
        watch("der", lambda: bytes(d))
        ECC.import_key(bytes(d))
        key.export_key(format="PEM", passphrase=buf2, protection="PBKDF2WithHMAC-SHA1AndAES128-CBC", prot_params={"iteration_count": 2})
    elif what == "bcrypt":
        from Crypto.Protocol import KDF
        pw = bytearray(bytes(b or 1 for b in data[:40]))
        salt = bytearray(data2.ljust(16, b"s")[:16])
        watch("password", lambda: bytes(pw))
        watch("salt", lambda: bytes(salt))
        hsh = bytearray(KDF.bcrypt(pw, 4, salt))
        watch("hash", lambda: bytes(hsh))
        KDF.bcrypt_check(pw, hsh)
    elif what == "shamir":
        from Crypto.Protocol.SecretSharing import Shamir
        sec = bytearray(data.ljust(16, b"s")[:16])
        watch("secret", lambda: bytes(sec))
        sh = Shamir.split(2, 3, sec)
        shares = [(i, bytearray(v)) for i, v in sh[:2]]
        watch("shares", lambda: [bytes(v) for _, v in shares])
        Shamir.combine(shares)
    for name, thunk, before in snaps:
        if thunk() != before:
            raise Violation("preserve/%s/%s-modified" % (what, name), "caller-owned input '%s' changed during %s" % (name, what), what=what)
    rec.nt(what, case["kind"] if what in ("hash-update", "cipher-encrypt", "aead") else "", len(data) % 16 == 0)
    rec.event("preserve:" + what)
    rec.sample({"what": what, "len": len(data)})


# ------------------------------------------------------------------ (iii) threads
@st.composite
def strat_threads(draw, tier):
    nthreads = draw(st.sampled_from([2, 4, 4, 8, 8, 16]))
    shared_kind = draw(st.sampled_from(ALL_KINDS))
    progs = []
    for _ in range(nthreads):
        p = draw(program(3, 30 if tier == "quick" else 60))
        if draw(st.booleans()):
            p["objs"][0]["kind"] = shared_kind
        progs.append(p)
    return {"programs": progs, "repeat": draw(st.integers(1, 3))}


def run_threads(case, rec):
    """A failure under threads is reported only if it shows up again when the same workload is run again (up to 3 more rounds): an event
    that cannot be reproduced cannot be shown against the code, and is recorded as `threads:unconfirmed...` with its traceback instead."""
    import traceback
    progs = case["programs"]
    expected = [run_program(p, None, collect_only=False) for p in progs]

    def one_round():
        """None if the round agrees with the serial run, 'inconclusive', or (bucket, message, details)."""
        results = [None] * len(progs)
        errors = [None] * len(progs)
        barrier = threading.Barrier(len(progs))

        def work(i):
            try:
                barrier.wait(timeout=30)
                results[i] = run_program(progs[i], None, collect_only=True)
            except BaseException as e:
                errors[i] = e
        ths = [threading.Thread(target=work, args=(i,)) for i in range(len(progs))]
        for t in ths:
            t.start()
        for t in ths:
            t.join(timeout=120)
        if any(t.is_alive() for t in ths):
            rec.event("threads:inconclusive-timeout")
            return "inconclusive"
        for i in range(len(progs)):
            if errors[i] is not None:
                if isinstance(errors[i], threading.BrokenBarrierError):
                    rec.event("threads:inconclusive-barrier")
                    return "inconclusive"
                tb = "".join(traceback.format_tb(errors[i].__traceback__)[-4:])[-700:]
                return ("threads/exception-in-thread/%s" % type(errors[i]).__name__,
                        "thread %d of %d raised %s: %s\n%s" % (i, len(progs), type(errors[i]).__name__, str(errors[i])[:200], tb),
                        {"kinds": [o["kind"] for o in progs[i]["objs"]]})
            if results[i] != expected[i]:
                return ("threads/outputs-differ", "thread %d of %d produced outputs that differ from the serial run of the same workload" % (i, len(progs)),
                        {"kinds": [o["kind"] for o in progs[i]["objs"]], "nthreads": len(progs)})
        return None

    old = sys.getswitchinterval()
    sys.setswitchinterval(1e-6)
    try:
        for rep in range(case["repeat"]):
            r = one_round()
            if r == "inconclusive":
                return
            if r is not None:
                again = None
                for _ in range(3):
                    again = one_round()
                    if again not in (None, "inconclusive"):
                        break
                if again in (None, "inconclusive"):
                    rec.event("threads:unconfirmed-schedule-dependent:" + r[0].split("/", 1)[1][:60])
                    rec.note("threads_unconfirmed_last", {"bucket": r[0], "message": r[1][:900]})
                    return
                raise Violation(again[0], again[1] + " (seen in 2 of up to 4 rounds of the same workload)", **again[2])
    finally:
        sys.setswitchinterval(old)
    kinds = [o["kind"] for p in progs for o in p["objs"]]
    if len(progs) >= 4 and len(set(kinds)) < len(kinds):
        rec.nt(len(progs), tuple(sorted(set(k for k in kinds if kinds.count(k) > 1)))[:3], case["repeat"])
    rec.event("threads:%d" % len(progs))
    rec.sample({"nthreads": len(progs), "kinds": sorted(set(kinds))[:8]})


# ------------------------------------------------------------------ first-use races (fresh interpreter per case)
FIRSTUSE_CODE = r'''
import sys, threading, json, time
curve, n, widen = sys.argv[1], int(sys.argv[2]), float(sys.argv[3])
sys.setswitchinterval(1e-6)
from Crypto.PublicKey import _point
if widen > 0:
    # widen the race window: every thread that enters the loader waits a little (monkey-patched from the harness, no repo change)
    orig = _point._Curves.load
    def slow_load(self, name):
        r = orig(self, name)
        time.sleep(widen)
        return r
    _point._Curves.load = slow_load
from Crypto.PublicKey import ECC
barrier = threading.Barrier(n)
out, errs = [None] * n, [None] * n
def work(i):
    try:
        barrier.wait(timeout=20)
        if curve in ("curve25519", "curve448"):
            k = ECC.construct(curve=curve, seed=bytes([i + 1]) * (32 if curve == "curve25519" else 56))
            out[i] = (k, int(k.pointQ.x))
        elif curve in ("ed25519", "ed448"):
            k = ECC.construct(curve=curve, seed=bytes([i + 1]) * (32 if curve == "ed25519" else 57))
            out[i] = (k, [int(k.pointQ.x), int(k.pointQ.y)])
        else:
            k = ECC.construct(curve=curve, d=i + 2)
            out[i] = (k, [int(k.pointQ.x), int(k.pointQ.y)])
    except BaseException as e:
        errs[i] = "%s: %s" % (type(e).__name__, e)
ths = [threading.Thread(target=work, args=(i,)) for i in range(n)]
[t.start() for t in ths]
[t.join(60) for t in ths]
res = {"errors": [e for e in errs if e], "alive": sum(t.is_alive() for t in ths)}
# objects created by different threads must live on the same curve context: combine them
try:
    if not res["errors"] and not res["alive"] and curve not in ("curve25519", "curve448"):
        acc = out[0][0].pointQ.copy()
        for k, _ in out[1:]:
            acc += k.pointQ
        res["sum"] = [int(acc.x), int(acc.y)]
        ref = ECC.construct(curve=curve, d=sum(range(2, n + 2))).pointQ if curve.startswith("p") else None
        if ref is not None:
            res["sum_ok"] = [int(ref.x), int(ref.y)] == res["sum"]
    res["values"] = [o[1] for o in out if o]
except BaseException as e:
    res["combine_error"] = "%s: %s" % (type(e).__name__, e)
print(json.dumps(res))
'''


def cases_firstuse(tier, shard, nshards):
    out = []
    reps = 2 if tier == "quick" else 12
    for r in range(reps):
        for curve in keys.ALL_CURVES:
            for n, widen in ((8, 0.0), (16, 0.002)):
                out.append({"curve": curve, "n": n, "widen": widen, "rep": r})
    return [c for i, c in enumerate(out) if i % nshards == shard]


def run_firstuse(case, rec):
    """Like run_threads: a failure must show up in a second fresh interpreter (up to 3 more attempts) before it is reported."""
    try:
        return _firstuse_once(case, rec)
    except Violation as first:
        for _ in range(3):
            try:
                _firstuse_once(case, Recorder())
            except Violation as again:
                raise Violation(again.bucket, again.message + " (seen in 2 of up to 4 fresh interpreters)", **again.details)
        rec.event("firstuse:unconfirmed-schedule-dependent:" + first.bucket[:70])
        rec.note("firstuse_unconfirmed_last", {"bucket": first.bucket, "message": first.message[:600]})


def _firstuse_once(case, rec):
    env = dict(os.environ)
    try:
        p = subprocess.run([sys.executable, "-c", FIRSTUSE_CODE, case["curve"], str(case["n"]), str(case["widen"])], env=env, stdout=subprocess.PIPE,
                           stderr=subprocess.PIPE, timeout=180)
    except subprocess.TimeoutExpired:
        rec.event("firstuse:inconclusive-timeout")
        return
    if p.returncode != 0:
        raise Violation("firstuse/%s/interpreter-died" % case["curve"], "interpreter exited with %d during concurrent first use: %s" % (p.returncode, p.stderr.decode(errors="replace")[-300:]), **case)
    res = json.loads(p.stdout.decode().strip().splitlines()[-1])
    if res.get("alive"):
        rec.event("firstuse:inconclusive-timeout")
        return
    if res["errors"]:
        if all("BrokenBarrier" in e for e in res["errors"]):
            rec.event("firstuse:inconclusive-barrier")
            return
        raise Violation("firstuse/%s/exception" % case["curve"], "concurrent first use raised: %s" % res["errors"][:2], **case)
    if res.get("combine_error"):
        raise Violation("firstuse/%s/objects-on-different-contexts" % case["curve"], "objects created by racing threads cannot be combined: %s" % res["combine_error"], **case)
    if res.get("sum_ok") is False:
        raise Violation("firstuse/%s/wrong-sum" % case["curve"], "sum of the racing threads' public points is wrong", **case)
    # values must equal those of a quiet interpreter
    from Crypto.PublicKey import ECC
    for i, v in enumerate(res["values"]):
        c = case["curve"]
        if c in ("curve25519", "curve448"):
            k = ECC.construct(curve=c, seed=bytes([i + 1]) * (32 if c == "curve25519" else 56))
            exp = int(k.pointQ.x)
        elif c in ("ed25519", "ed448"):
            k = ECC.construct(curve=c, seed=bytes([i + 1]) * (32 if c == "ed25519" else 57))
            exp = [int(k.pointQ.x), int(k.pointQ.y)]
        else:
            k = ECC.construct(curve=c, d=i + 2)
            exp = [int(k.pointQ.x), int(k.pointQ.y)]
        if v != exp:
            raise Violation("firstuse/%s/wrong-value" % c, "a key created during the first-use race has a wrong public point", **case)
    rec.nt(case["curve"], case["n"], case["widen"] > 0)
    rec.event("firstuse:%s" % case["curve"])
    rec.sample(case)


CHECKS = [
    Check("sequential", run=run_seq, strategy=strat_seq, examples=(6000, 40000), shards=(16, 16),
          rule="interleaved programs over 2..5 objects (+copy, del/gc): every object's outputs equal a fresh replay of its own history"),
    Check("preserve", run=run_pres, strategy=strat_pres, examples=(3000, 24000), shards=(16, 16),
          rule="caller-owned inputs (buffers, keys, hash/XOF objects, points, integers) unchanged after public calls"),
    Check("threads", run=run_threads, strategy=strat_threads, examples=(160, 1600), shards=(8, 8),
          rule="2..16 threads running independent generated workloads: outputs equal the serial run, no exception"),
    Check("firstuse", run=run_firstuse, cases=cases_firstuse, shards=(12, 12),
          rule="concurrent first use of each curve in a fresh interpreter (8 and 16 threads, loader window widened): no exception, consistent objects"),
]
