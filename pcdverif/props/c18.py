"""C18 — random integers/selections in range and exactly uniform given uniform entropy."""
import itertools
import math

from hypothesis import strategies as st

from ..core import Check, Violation, HarnessError, Skip, libcall
from .c14 import get_backend, BACKENDS

META = {
    "rule": "entropy is a harness tape (randfunc). Exhaustive tier: for a sampler call, ALL first-attempt tapes (256 or 65536) "
            "are enumerated and the number of accepting tapes per result value counted: every value of the documented range "
            "must have the same count, none outside. Large sizes: boundary tapes (0, 1, bound-1, bound, bound+1, all-ones) vs the "
            "masking rejection sampler model. Consumers (ECC.generate, FIPS nonces, DSA x) compared with the documented sampler on "
            "the same tape; every random_range/random call made inside sign/decrypt observed by a spy for range. "
            "Non-trivial = range size not a power of two, or min != 0, or boundary tape, or consumer case; distinct by "
            "(API, back-end, range class, tape class)",
    "assumptions": ["exact uniformity is decided per attempt: attempts consume fresh tape bytes, so equal pre-image counts per attempt "
                    "are equivalent to exact uniformity of the rejection sampler",
                    "for sizes above 16 bits uniformity rests on boundary tapes + the masking-sampler model (big-endian bytes, excess top bits masked)"],
    "unexplored": ["exhaustive pre-image counting above 16-bit ranges (3-byte tapes) except shuffle n=4 in thorough"],
}


class TapeExhausted(Exception):
    pass


class Tape:
    def __init__(self, data, strict=True):
        self.data = bytes(data)
        self.pos = 0
        self.calls = []
        self.strict = strict

    def __call__(self, n):
        self.calls.append(n)
        if self.pos + n > len(self.data):
            raise TapeExhausted()
        out = self.data[self.pos:self.pos + n]
        self.pos += n
        return out

    read = __call__


# ------------------------------------------------------------------ exhaustive pre-image counting
def count_preimages(call, nbytes):
    """Enumerate all tapes of nbytes; return dict value -> count of accepting tapes, and #rejected."""
    counts = {}
    rejected = 0
    for t in itertools.product(range(256), repeat=nbytes):
        tape = Tape(bytes(t))
        try:
            v = call(tape)
        except TapeExhausted:
            rejected += 1
            continue
        if tape.pos != nbytes:
            # accepted without consuming the whole first-attempt tape: tapes sharing the prefix all map here; still counted
            pass
        counts[v] = counts.get(v, 0) + 1
    return counts, rejected


def assert_uniform(api, counts, rejected, domain, nbytes, info):
    dom = list(domain)
    outside = [v for v in counts if v not in set(dom)]
    if outside:
        raise Violation("%s/out-of-range" % api, "value %r outside the documented range" % (outside[0],), **info)
    missing = [v for v in dom if v not in counts]
    if missing:
        raise Violation("%s/value-never-produced" % api, "value %r of the range has no accepting tape" % (missing[0],), **info)
    cs = set(counts.values())
    if len(cs) != 1:
        lo = min(counts, key=lambda v: counts[v])
        hi = max(counts, key=lambda v: counts[v])
        raise Violation("%s/non-uniform" % api, "value %r has %d accepting tapes but %r has %d (of %d tapes)" % (
            lo, counts[lo], hi, counts[hi], 256 ** nbytes), **info)


def cases_exh(tier, shard, nshards):
    out = []
    sizes = list(range(1, 258)) + [300, 512, 513, 4097, 65535, 65536]
    if tier == "thorough":
        sizes = list(range(1, 1100)) + [2047, 2048, 2049, 4095, 4096, 4097, 10000, 32767, 32768, 32769, 65535, 65536]
    for be in BACKENDS:
        for R in sizes:
            for mn in ((0, 1) if R % 7 != 3 else (0, 5, -3, 2 ** 70)):
                out.append({"api": "random_range", "backend": be, "R": R, "min": mn, "excl": (R + mn) % 2 == 0})
        for k in (range(1, 17) if tier == "thorough" else (1, 2, 3, 4, 5, 6, 7, 8, 9, 12, 15, 16)):
            out.append({"api": "random_max_bits", "backend": be, "k": k})
            out.append({"api": "random_exact_bits", "backend": be, "k": k})
    for k in range(0, 17):
        out.append({"api": "getrandbits", "k": k})
        if k:
            out.append({"api": "getRandomInteger", "k": k})
            out.append({"api": "getRandomNBitInteger", "k": k})
    for R in sizes:
        if R <= 4097:
            out.append({"api": "randrange1", "R": R})
            out.append({"api": "getRandomRange", "R": R, "min": 3})
            out.append({"api": "randint", "R": R, "min": -2})
    for start, stop, step in [(0, 10, 3), (10, 0, -3), (-5, 6, 2), (1, 2, 5), (7, -8, -4), (0, 255, 1), (0, 256, 1), (0, 257, 1),
                              (3, 1000, 7), (100, 0, -1), (0, 513, 2), (-300, 300, 1)]:
        out.append({"api": "randrange3", "start": start, "stop": stop, "step": step})
    for n in range(1, 8):
        out.append({"api": "choice", "n": n})
    for n in (2, 3) + ((4,) if tier == "thorough" else ()):
        if n == 4:
            for first in range(0, 256, 4):
                out.append({"api": "shuffle", "n": 4, "first": [first, first + 4]})
        else:
            out.append({"api": "shuffle", "n": n})
    for n, k in [(2, 1), (2, 2), (3, 2), (4, 2), (5, 2), (6, 1), (7, 2), (3, 1)]:
        out.append({"api": "sample", "n": n, "k": k})
    import hashlib
    out.sort(key=lambda c: hashlib.md5(repr(sorted(c.items())).encode()).hexdigest())
    if tier == "quick":
        # two-byte tape spaces cost 65536 sampler calls each: keep a fixed fraction of them in the quick tier
        # (all are in the thorough tier); one-byte spaces are all kept.
        kept, heavy = [], 0
        for c in out:
            if _tape_bytes(c) >= 2:
                heavy += 1
                if heavy % 4 != 0:
                    continue
            kept.append(c)
        out = kept
    out.sort(key=lambda c: -_tape_bytes(c))     # stable: heavy cases first, dealt round-robin
    return [c for i, c in enumerate(out) if i % nshards == shard]


def _tape_bytes(c):
    api = c["api"]
    if api == "random_range":
        return (max(1, (c["R"] - 1).bit_length()) + 7) // 8
    if api in ("random_max_bits", "random_exact_bits", "getrandbits", "getRandomInteger"):
        return (c["k"] + 7) // 8
    if api == "getRandomNBitInteger":
        return (c["k"] + 6) // 8
    if api in ("randrange1", "randint"):
        return (c["R"].bit_length() + 7) // 8
    if api == "getRandomRange":
        return ((c["R"] - 1).bit_length() + 7) // 8
    if api == "randrange3":
        return (len(range(c["start"], c["stop"], c["step"])).bit_length() + 7) // 8
    if api == "shuffle":
        return c["n"] - 1
    if api == "sample":
        return c["k"]
    return 1


def run_exh(case, rec):
    from Crypto.Random.random import StrongRandom
    from Crypto.Util import number
    api = case["api"]
    info = dict(case)
    nontriv = True
    if api == "random_range":
        I = get_backend(case["backend"])
        R, mn = case["R"], case["min"]
        N = R - 1
        bits = max(1, N.bit_length())
        nbytes = (bits + 7) // 8
        if case["excl"]:
            call = lambda t: int(I.random_range(min_inclusive=mn, max_exclusive=mn + R, randfunc=t))
        else:
            call = lambda t: int(I.random_range(min_inclusive=mn, max_inclusive=mn + R - 1, randfunc=t))
        counts, rej = count_preimages(call, nbytes)
        assert_uniform("random_range/" + case["backend"], counts, rej, range(mn, mn + R), nbytes, info)
        nontriv = (R & (R - 1)) != 0 or mn != 0
        feat = (api, case["backend"], R if R < 40 else R.bit_length(), mn != 0, case["excl"])
    elif api in ("random_max_bits", "random_exact_bits"):
        I = get_backend(case["backend"])
        k = case["k"]
        nbytes = (k + 7) // 8
        if api == "random_max_bits":
            call = lambda t: int(I.random(max_bits=k, randfunc=t))
            dom = range(0, 1 << k)
        else:
            call = lambda t: int(I.random(exact_bits=k, randfunc=t))
            dom = range(1 << (k - 1), 1 << k)
        counts, rej = count_preimages(call, nbytes)
        if rej:
            raise Violation("%s/rejects" % api, "n-bit sampler rejected %d tapes" % rej, **info)
        assert_uniform("%s/%s" % (api, case["backend"]), counts, rej, dom, nbytes, info)
        feat = (api, case["backend"], k)
    elif api in ("getrandbits", "getRandomInteger", "getRandomNBitInteger"):
        k = case["k"]
        if api == "getrandbits":
            call = lambda t: StrongRandom(randfunc=t).getrandbits(k)
            dom = range(0, 1 << k)
        elif api == "getRandomInteger":
            call = lambda t: number.getRandomInteger(k, t)
            dom = range(0, 1 << k)
        else:
            call = lambda t: number.getRandomNBitInteger(k, t)
            dom = range(1 << (k - 1), 1 << k)
        nbytes = ((k if api != "getRandomNBitInteger" else k - 1) + 7) // 8
        if nbytes == 0:
            v = call(Tape(b""))
            if v not in dom:
                raise Violation("%s/out-of-range" % api, "value %r" % v, **info)
            return
        counts, rej = count_preimages(call, nbytes)
        assert_uniform(api, counts, rej, dom, nbytes, info)
        feat = (api, k)
    elif api in ("randrange1", "getRandomRange", "randint"):
        R = case["R"]
        if api == "randrange1":
            call = lambda t: StrongRandom(randfunc=t).randrange(R)
            dom = range(R)
            bits = R.bit_length()
        elif api == "randint":
            mn = case["min"]
            call = lambda t: StrongRandom(randfunc=t).randint(mn, mn + R - 1)
            dom = range(mn, mn + R)
            bits = R.bit_length()
        else:
            mn = case["min"]
            call = lambda t: number.getRandomRange(mn, mn + R, t)
            dom = range(mn, mn + R)
            bits = (R - 1).bit_length()
        nbytes = (bits + 7) // 8
        if nbytes == 0:
            v = call(Tape(b""))
            if v not in dom:
                raise Violation("%s/out-of-range" % api, "value %r" % v, **info)
            return
        if nbytes > 2:
            raise Skip()
        counts, rej = count_preimages(call, nbytes)
        assert_uniform(api, counts, rej, dom, nbytes, info)
        nontriv = (R & (R - 1)) != 0
        feat = (api, R if R < 40 else R.bit_length())
    elif api == "randrange3":
        start, stop, step = case["start"], case["stop"], case["step"]
        dom = range(start, stop, step)
        nbytes = (len(dom).bit_length() + 7) // 8
        call = lambda t: StrongRandom(randfunc=t).randrange(start, stop, step)
        if step < 0:
            # the pinned tree refuses negative steps with ValueError (no value drawn => nothing to be biased); only if a
            # value is returned must the distribution be uniform over range(start, stop, step)
            kind, _ = libcall(call, Tape(bytes(nbytes)), allowed=(ValueError, TapeExhausted))
            if kind == "exc":
                rec.event("randrange-negative-step-refused")
                return
        counts, rej = count_preimages(call, nbytes)
        assert_uniform(api, counts, rej, dom, nbytes, info)
        feat = (api, start, stop, step)
    elif api == "choice":
        n = case["n"]
        seq = ["e%d" % i for i in range(n)]
        call = lambda t: StrongRandom(randfunc=t).choice(seq)
        counts, rej = count_preimages(call, 1)
        assert_uniform(api, counts, rej, seq, 1, info)
        feat = (api, n)
    elif api == "shuffle":
        n = case["n"]
        nbytes = n - 1
        counts, rej = {}, 0
        first = case.get("first")
        it = itertools.product(range(256), repeat=nbytes) if not first else \
            itertools.product(range(first[0], first[1]), *([range(256)] * (nbytes - 1)))
        for t in it:
            tape = Tape(bytes(t))
            x = list(range(n))
            try:
                StrongRandom(randfunc=tape).shuffle(x)
            except TapeExhausted:
                rej += 1
                continue
            counts[tuple(x)] = counts.get(tuple(x), 0) + 1
        if first:
            # partial enumeration (sharded by first byte): every produced value must be a permutation; the counts of the
            # slice are recorded for the cross-slice sum done by the 'shuffle' n=3 full case. Here: check conditional uniformity
            # over the remaining positions given the first swap.
            for p in counts:
                if sorted(p) != list(range(n)):
                    raise Violation("shuffle/not-a-permutation", "shuffle produced %r" % (p,), **info)
            byfirst = {}
            for p, c in counts.items():
                byfirst.setdefault(p[n - 1], {})[p] = c
            for last, d in byfirst.items():
                if len(d) != math.factorial(n - 1) or len(set(d.values())) != 1:
                    raise Violation("shuffle/non-uniform", "conditional distribution given x[-1]=%r is not uniform" % last, **info)
        else:
            assert_uniform(api, counts, rej, list(itertools.permutations(range(n))), nbytes, info)
        feat = (api, n, tuple(first or ()))
    elif api == "sample":
        n, k = case["n"], case["k"]
        pop = list(range(10, 10 + n))
        call = lambda t: tuple(StrongRandom(randfunc=t).sample(pop, k))
        counts, rej = count_preimages(call, k)
        assert_uniform(api, counts, rej, list(itertools.permutations(pop, k)), k, info)
        feat = (api, n, k)
    else:
        raise HarnessError("unknown api " + api)
    if nontriv:
        rec.nt(*feat)
    rec.event("exhaustive:" + api)
    rec.sample(case)


# ------------------------------------------------------------------ boundary tapes at cryptographic sizes
def model_sampler(tape_bytes, N):
    """The documented masking rejection sampler over [0, N] on a byte string. Returns (value, consumed) or (None, consumed)."""
    bits = max(1, N.bit_length())
    nb = (bits + 7) // 8
    pos = 0
    while True:
        if pos + nb > len(tape_bytes):
            return None, pos
        chunk = tape_bytes[pos:pos + nb]
        pos += nb
        v = int.from_bytes(chunk, "big") & ((1 << bits) - 1)
        if v <= N:
            return v, pos


class _Orders(dict):
    """Group orders of the NIST curves, read from the library's curve table (its correctness is C05/C06's concern)."""

    def _load(self):
        if not len(self):
            from Crypto.PublicKey import ECC
            for n in ("p192", "p224", "p256", "p384", "p521"):
                dict.__setitem__(self, n, int(ECC._curves[n].order))

    def __getitem__(self, k):
        self._load()
        return dict.__getitem__(self, k)


ORDERS = _Orders()
NIST = ["p192", "p224", "p256", "p384", "p521"]


@st.composite
def strat_boundary(draw, tier):
    kind = draw(st.sampled_from(["order", "bits", "bits", "pow2"]))
    if kind == "order":
        N = ORDERS[draw(st.sampled_from(NIST))] - 2
    elif kind == "pow2":
        k = draw(st.integers(17, 600))
        N = (1 << k) + draw(st.sampled_from([-2, -1, 0, 1]))
    else:
        bits = draw(st.one_of(st.integers(17, 600), st.sampled_from([24, 25, 31, 32, 33, 63, 64, 65, 127, 128, 129, 255, 256, 257, 521])))
        N = draw(st.integers(1 << (bits - 1), (1 << bits) - 1))
    bits = N.bit_length()
    nb = (bits + 7) // 8
    attempts = []
    for _ in range(draw(st.integers(1, 3))):
        t = draw(st.sampled_from(["0", "1", "N-1", "N", "N+1", "N+2", "ones", "rand", "rand", "highgarbage"]))
        if t == "rand":
            v = draw(st.integers(0, (1 << (8 * nb)) - 1))
        else:
            v = {"0": 0, "1": 1, "N-1": N - 1, "N": N, "N+1": N + 1, "N+2": N + 2, "ones": (1 << (8 * nb)) - 1,
                 "highgarbage": (N - draw(st.integers(0, 5))) | (((1 << (8 * nb - bits)) - 1) << bits)}[t]
        v &= (1 << (8 * nb)) - 1
        attempts.append([t, v])
    return {"backend": draw(st.sampled_from(BACKENDS)), "N": N, "min": draw(st.sampled_from([0, 1, 1, 2, -7, 1 << 80])),
            "attempts": attempts, "api": draw(st.sampled_from(["random_range", "random_range", "getRandomRange", "randrange"]))}


def run_boundary(case, rec):
    from Crypto.Random.random import StrongRandom
    from Crypto.Util import number
    N, mn = case["N"], case["min"]
    bits = N.bit_length()
    nb = (bits + 7) // 8
    tape_bytes = b"".join(v.to_bytes(nb, "big") for _, v in case["attempts"])
    api = case["api"]
    tape = Tape(tape_bytes)
    if api == "random_range":
        I = get_backend(case["backend"])
        f = lambda: int(I.random_range(min_inclusive=mn, max_inclusive=mn + N, randfunc=tape))
        name = "random_range/" + case["backend"]
        exp, consumed = model_sampler(tape_bytes, N)
    elif api == "getRandomRange":
        f = lambda: number.getRandomRange(mn, mn + N + 1, tape)
        name = api
        # getRandomInteger shifts the odd bits out of a separate byte: model only range + rejection of > N
        exp, consumed = "range-only", None
    else:
        f = lambda: StrongRandom(randfunc=tape).randrange(mn, mn + N + 1)
        name = api
        exp, consumed = "range-only", None
    try:
        v = f()
    except TapeExhausted:
        v = None
    info = {"N": N, "min": mn, "attempts": case["attempts"], "api": api}
    if v is not None and not (mn <= v <= mn + N):
        raise Violation("%s/out-of-range" % name, "result %d outside [%d, %d]" % (v, mn, mn + N), **info)
    if exp != "range-only":
        if exp is None:
            if v is not None:
                raise Violation("%s/accepted-out-of-range-candidate" % name,
                                "all candidates on the tape exceed the bound, yet %d was returned (reduced or clamped)" % v, **info)
        else:
            if v is None:
                raise Violation("%s/in-range-candidate-rejected" % name, "candidate %d <= N was not accepted" % exp, **info)
            if v != exp + mn:
                raise Violation("%s/mapping" % name, "tape candidate %d (+min) expected, got %d" % (exp, v - mn), **info)
            if tape.pos != consumed:
                raise Violation("%s/consumption" % name, "consumed %d tape bytes, sampler model %d" % (tape.pos, consumed), **info)
    else:
        # model-free necessary condition: a tape whose every candidate (any masking) is > N must not yield a value
        def forms(vv):
            # the ways a sampler may cut `bits` bits out of nb tape bytes: low bits (mask), high bits (shift), and getRandomInteger's own
            # layout (the first nb-1 bytes are the low part, the odd bits come from the top of the following byte)
            out = [vv & ((1 << bits) - 1), (vv >> (8 * nb - bits)) if 8 * nb > bits else vv]
            odd = bits % 8
            if odd:
                out.append(((vv & 0xFF) >> (8 - odd)) << (8 * (nb - 1)) | (vv >> 8))
            return out
        allbig = all(min(forms(vv)) > N for _, vv in case["attempts"])
        if allbig and v is not None and len(case["attempts"]) == 1 and tape.pos <= nb:
            raise Violation("%s/accepted-out-of-range-candidate" % name, "candidate above the bound produced %d" % v, **info)
    rec.nt(name, bits // 32, mn != 0, tuple(t for t, _ in case["attempts"]))
    rec.event("boundary:%s:%s" % (api, ",".join(t for t, _ in case["attempts"])))
    rec.sample(info)


# ------------------------------------------------------------------ consumers
CURVES = ["p192", "p224", "p256", "p384", "p521", "ed25519", "ed448", "curve25519", "curve448"]


@st.composite
def strat_consumer(draw, tier):
    which = draw(st.sampled_from(["ecc_generate", "ecc_generate", "ecdsa_nonce", "dsa_nonce", "dsa_x", "rsa_generate" if tier == "thorough" else "dsa_x"]))
    c = {"which": which, "curve": draw(st.sampled_from(CURVES)), "seed": draw(st.binary(min_size=8, max_size=8)),
         "first": draw(st.sampled_from(["rand", "rand", "0", "1", "N-1", "N", "N+1", "ones"])),
         "msg": draw(st.binary(max_size=40))}
    return c


def tape_for(first, N, seed, total=600):
    import hashlib
    bits = N.bit_length()
    nb = (bits + 7) // 8
    stream = hashlib.shake_128(b"c18" + seed).digest(total)
    if first == "rand":
        return stream
    v = {"0": 0, "1": 1, "N-1": N - 1, "N": N, "N+1": N + 1, "N+2": N + 2, "N+3": N + 3, "ones": (1 << (8 * nb)) - 1}[first] & ((1 << (8 * nb)) - 1)
    return v.to_bytes(nb, "big") + stream


_DSA_DOMAIN = None


def dsa_domain():
    """A fixed valid 1024/160 domain (generated once per process with a deterministic tape, verified with sympy)."""
    global _DSA_DOMAIN
    if _DSA_DOMAIN is None:
        import hashlib
        import sympy
        from Crypto.PublicKey import DSA
        h = hashlib.shake_128(b"c18-dsa-domain")
        pos = [0]

        def rf(n):
            out = h.digest(pos[0] + n)[pos[0]:]
            pos[0] += n
            return out
        k = DSA.generate(1024, randfunc=rf)
        p, q, g = int(k.p), int(k.q), int(k.g)
        if not (sympy.isprime(p) and sympy.isprime(q) and (p - 1) % q == 0 and pow(g, q, p) == 1 and g > 1):
            raise HarnessError("generated DSA domain invalid")
        _DSA_DOMAIN = (p, q, g, int(k.x), int(k.y))
    return _DSA_DOMAIN


def run_consumer(case, rec):
    from Crypto.PublicKey import ECC, DSA
    from Crypto.Signature import DSS
    from Crypto.Hash import SHA256
    which, curve = case["which"], case["curve"]
    if which == "ecc_generate":
        if curve.startswith("p"):
            order = ORDERS[curve]
            N = order - 2
            tb = tape_for(case["first"], N, case["seed"])
            t1, t2 = Tape(tb), Tape(tb)
            k1 = ECC.generate(curve=curve, randfunc=t1)
            k2 = ECC.generate(curve=curve, randfunc=t2)
            d = int(k1.d)
            if not 1 <= d <= order - 1:
                raise Violation("ECC.generate/out-of-range", "d outside [1, order-1]", curve=curve)
            exp, consumed = model_sampler(tb, N)
            if exp is None:
                raise HarnessError("tape too short")
            if d != exp + 1:
                raise Violation("ECC.generate/mapping", "private scalar is not the documented sampler's output on the tape", curve=curve, first=case["first"])
            if int(k2.d) != d or t1.pos == 0:
                raise Violation("ECC.generate/nondeterministic", "same randfunc bytes gave different keys or no entropy was read", curve=curve)
        else:
            n = {"ed25519": 32, "ed448": 57, "curve25519": 32, "curve448": 56}[curve]
            import hashlib
            tb = hashlib.shake_128(b"c18" + case["seed"]).digest(n * 4)
            if case["first"] == "0" and curve.startswith("ed"):
                tb = bytes(n) + tb
            elif case["first"] == "ones":
                tb = b"\xff" * n + tb
            t1, t2 = Tape(tb), Tape(tb)
            k1 = ECC.generate(curve=curve, randfunc=t1)
            k2 = ECC.generate(curve=curve, randfunc=t2)
            if bytes(k1.seed) != tb[:n]:
                raise Violation("ECC.generate/seed", "seed is not the first %d bytes of the entropy" % n, curve=curve)
            if k1 != k2:
                raise Violation("ECC.generate/nondeterministic", "same randfunc bytes gave different keys", curve=curve)
        rec.nt(which, curve, case["first"])
    elif which == "ecdsa_nonce":
        if not curve.startswith("p"):
            curve = "p256"
        order = ORDERS[curve]
        key = ECC.construct(curve=curve, d=(int.from_bytes(case["seed"], "big") % (order - 1)) + 1)
        N = order - 2
        tb = tape_for(case["first"], N, case["seed"])
        sigs = []
        for _ in range(2):
            t = Tape(tb)
            signer = DSS.new(key, "fips-186-3", randfunc=t)
            h = SHA256.new(case["msg"])
            sigs.append(signer.sign(h))
        sig = sigs[0]
        if sigs[0] != sigs[1]:
            raise Violation("DSS/nondeterministic", "same randfunc bytes gave different signatures", curve=curve)
        half = len(sig) // 2
        r, s = int.from_bytes(sig[:half], "big"), int.from_bytes(sig[half:], "big")
        z = int.from_bytes(SHA256.new(case["msg"]).digest(), "big")
        hb = 256
        if hb > order.bit_length():
            z >>= hb - order.bit_length()
        k = (pow(s, -1, order) * (z + r * int(key.d))) % order
        exp, _ = model_sampler(tb, N)
        if not 1 <= k <= order - 1:
            raise Violation("DSS.ecdsa/nonce-out-of-range", "nonce out of range", curve=curve)
        if exp is not None and k != exp + 1:
            raise Violation("DSS.ecdsa/nonce-mapping", "nonce is not the documented sampler's output on the tape", curve=curve, first=case["first"])
        rec.nt(which, curve, case["first"])
    elif which == "dsa_nonce":
        p, q, g, x, y = dsa_domain()
        key = DSA.construct((y, g, p, q, x))
        N = q - 2
        tb = tape_for(case["first"], N, case["seed"])
        t = Tape(tb)
        exp, _ = model_sampler(tb, N)
        kind, sig = libcall(DSS.new(key, "fips-186-3", randfunc=t).sign, SHA256.new(case["msg"]), allowed=(ValueError,))
        if kind == "exc":
            if exp == 0:
                # nonce k = 1 is inside the documented range [1, q-1]; DsaKey._sign refuses it (1 < k). No value is
                # produced, so this is not a range/bias violation; counted only.
                rec.event("dsa-nonce-1-refused-by-sign")
                return
            raise Violation("DSS.dsa/sign-raised", "sign raised ValueError: %s" % sig)
        half = len(sig) // 2
        r, s = int.from_bytes(sig[:half], "big"), int.from_bytes(sig[half:], "big")
        z = int.from_bytes(SHA256.new(case["msg"]).digest()[:20], "big")
        k = (pow(s, -1, q) * (z + r * x)) % q
        exp, _ = model_sampler(tb, N)
        if pow(g, k, p) % q != r:
            raise HarnessError("nonce recovery failed")
        if not 1 <= k <= q - 1:
            raise Violation("DSS.dsa/nonce-out-of-range", "nonce out of range")
        if exp is not None and k != exp + 1:
            raise Violation("DSS.dsa/nonce-mapping", "nonce is not the documented sampler's output on the tape", first=case["first"])
        rec.nt(which, case["first"])
    elif which == "dsa_x":
        p, q, g, _, _ = dsa_domain()
        import hashlib
        nb = (160 + 64) // 8
        tb = hashlib.shake_128(b"c18x" + case["seed"]).digest(nb)
        if case["first"] == "0":
            tb = bytes(nb)
        elif case["first"] == "ones":
            tb = b"\xff" * nb
        elif case["first"] in ("N", "N-1", "N+1"):
            # c such that c mod (q-1) is 0 / q-2
            base = (1 << 223) + (1 << 100)
            c = base - (base % (q - 1)) + {"N": 0, "N-1": q - 2, "N+1": 1}[case["first"]]
            tb = c.to_bytes(nb, "big")
        t = Tape(tb)
        key = DSA.generate(1024, randfunc=t, domain=(p, q, g))
        c = int.from_bytes(tb, "big") | (1 << 223)
        x = int(key.x)
        if not 1 <= x <= q - 1:
            raise Violation("DSA.generate/x-out-of-range", "x outside [1, q-1]")
        if x != c % (q - 1) + 1:
            raise Violation("DSA.generate/x-mapping", "x != (c mod (q-1)) + 1 for the tape's c (FIPS 186-4 B.1.1)")
        if pow(g, x, p) != int(key.y):
            raise Violation("DSA.generate/y", "y != g^x")
        rec.nt(which, case["first"])
    elif which == "rsa_generate":
        from Crypto.PublicKey import RSA
        import hashlib
        keys = []
        for _ in range(2):
            h = hashlib.shake_128(b"c18rsa" + case["seed"])
            pos = [0]

            def rf(n):
                out = h.digest(pos[0] + n)[pos[0]:]
                pos[0] += n
                return out
            keys.append(RSA.generate(1024, randfunc=rf))
        if keys[0] != keys[1] or pos[0] == 0:
            raise Violation("RSA.generate/nondeterministic", "same randfunc bytes gave different keys")
        rec.nt(which)
    rec.event("consumer:" + which)
    rec.sample({"which": which, "curve": curve, "first": case["first"]})


# ------------------------------------------------------------------ spy: all random draws inside operations are in range
@st.composite
def strat_spy(draw, tier):
    return {"op": draw(st.sampled_from(["rsa_decrypt", "ecdsa_sign", "dsa_sign", "ecc_mul_blind", "elgamal"])),
            "seed": draw(st.binary(min_size=8, max_size=8)), "first": draw(st.sampled_from(["rand", "0", "ones", "N", "N+1", "1"])),
            "curve": draw(st.sampled_from(["p192", "p256", "p384", "p521"]))}


_RSA = {}


def rsa_key(bits=1024):
    if bits not in _RSA:
        import sympy
        import hashlib
        from Crypto.PublicKey import RSA
        h = hashlib.shake_128(b"c18-rsa-%d" % bits)
        cands = []
        off = 0
        while len(cands) < 2:
            x = int.from_bytes(h.digest(off + bits // 16)[off:], "big") | (1 << (bits // 2 - 1)) | (1 << (bits // 2 - 2)) | 1
            off += bits // 16
            pr = sympy.nextprime(x)
            if math.gcd(pr - 1, 65537) == 1:
                cands.append(pr)
        p, q = cands
        n = p * q
        d = pow(65537, -1, math.lcm(p - 1, q - 1))
        _RSA[bits] = RSA.construct((n, 65537, d, p, q))
    return _RSA[bits]


def run_spy(case, rec):
    """Patch the system entropy source used when no randfunc is given and observe every random_range/random result."""
    import hashlib
    from Crypto import Random
    from Crypto.Math.Numbers import Integer
    import Crypto.Math._IntegerBase as IB
    seen = []
    orig_rr = Integer.random_range.__func__
    orig_r = Integer.random.__func__

    def spy_rr(cls, **kw):
        v = orig_rr(cls, **kw)
        lo = kw.get("min_inclusive")
        hi = kw.get("max_inclusive")
        if hi is None:
            hi = kw.get("max_exclusive") - 1
        seen.append(("random_range", int(lo), int(hi), int(v)))
        return v

    def spy_r(cls, **kw):
        v = orig_r(cls, **kw)
        if kw.get("exact_bits"):
            lo, hi = 1 << (kw["exact_bits"] - 1), (1 << kw["exact_bits"]) - 1
        else:
            lo, hi = 0, (1 << kw["max_bits"]) - 1
        seen.append(("random", lo, hi, int(v)))
        return v

    key = rsa_key()
    order = ORDERS[case["curve"]]
    bound = {"rsa_decrypt": int(key.n) - 2, "ecdsa_sign": order - 2, "ecc_mul_blind": order - 2}.get(case["op"], (1 << 159))
    tb = tape_for(case["first"], bound, case["seed"], total=4000)
    stream = Tape(tb + hashlib.shake_128(case["seed"]).digest(20000))

    class FakeRNG:
        def read(self, n):
            return stream(n)
    old_new = Random.new
    old_grb = Random.get_random_bytes
    base = Integer.__mro__[0]
    Integer.random_range = classmethod(spy_rr)
    Integer.random = classmethod(spy_r)
    Random.new = lambda *a, **k: FakeRNG()
    Random.get_random_bytes = stream
    try:
        from Crypto.PublicKey import ECC, DSA
        from Crypto.Signature import DSS
        from Crypto.Hash import SHA256
        if case["op"] == "rsa_decrypt":
            m = int.from_bytes(case["seed"], "big") + 2
            c = pow(m, 65537, int(key.n))
            got = key._decrypt(c)
            if int(got) != m:
                raise Violation("spy/rsa-decrypt-wrong", "blinded RSA decryption returned a wrong value with boundary entropy", first=case["first"])
        elif case["op"] == "ecdsa_sign":
            k = ECC.construct(curve=case["curve"], d=int.from_bytes(case["seed"], "big") + 1)
            h = SHA256.new(case["seed"])
            sig = DSS.new(k, "fips-186-3").sign(h)
            DSS.new(k.public_key(), "fips-186-3").verify(SHA256.new(case["seed"]), sig)
        elif case["op"] == "dsa_sign":
            p, q, g, x, y = dsa_domain()
            k = DSA.construct((y, g, p, q, x))
            sig = DSS.new(k, "fips-186-3").sign(SHA256.new(case["seed"]))
            DSS.new(k, "fips-186-3").verify(SHA256.new(case["seed"]), sig)
        elif case["op"] == "ecc_mul_blind":
            k = ECC.construct(curve=case["curve"], d=int.from_bytes(case["seed"], "big") + 1)
            sig = DSS.new(k, "deterministic-rfc6979").sign(SHA256.new(case["seed"]))
            DSS.new(k, "deterministic-rfc6979").verify(SHA256.new(case["seed"]), sig)
        else:
            raise Skip()
    finally:
        Integer.random_range = classmethod(orig_rr)
        Integer.random = classmethod(orig_r)
        Random.new = old_new
        Random.get_random_bytes = old_grb
    for name, lo, hi, v in seen:
        if not lo <= v <= hi:
            raise Violation("spy/%s/out-of-range" % name, "%s returned %d outside [%d, %d] during %s" % (name, v, lo, hi, case["op"]))
    if not seen:
        rec.event("spy:no-draw:" + case["op"])
    else:
        rec.nt(case["op"], case["first"], len(seen))
    rec.event("spy:" + case["op"])
    rec.sample({"op": case["op"], "first": case["first"], "draws": [(n, v.bit_length()) for n, lo, hi, v in seen][:4]})


def cases_consumer_boundary(tier, shard, nshards):
    """Every NIST curve x every boundary tape for the three rejection-sampling consumers (systematic, not sampled)."""
    out = []
    for first in ["0", "1", "N-1", "N", "N+1", "N+2", "N+3", "ones", "rand"]:
        for curve in NIST:
            out.append({"which": "ecc_generate", "curve": curve, "seed": b"boundary" , "first": first, "msg": b"m"})
            out.append({"which": "ecdsa_nonce", "curve": curve, "seed": b"boundar2", "first": first, "msg": b"m"})
        out.append({"which": "dsa_nonce", "curve": "p256", "seed": b"boundar3", "first": first, "msg": b"m"})
        for curve in ["ed25519", "ed448", "curve25519", "curve448"]:
            if first in ("0", "ones", "rand"):
                out.append({"which": "ecc_generate", "curve": curve, "seed": b"boundar4", "first": first, "msg": b""})
    return [c for i, c in enumerate(out) if i % nshards == shard]


CHECKS = [
    Check("consumer_boundary", run=run_consumer, cases=cases_consumer_boundary, shards=(8, 8), exhaustive=False,
          rule="every NIST curve x every boundary tape (0, 1, N-1, N, N+1, N+2, N+3, all-ones) for ECC.generate and FIPS ECDSA/DSA nonces"),
    Check("exhaustive", run=run_exh, cases=cases_exh, shards=(16, 16), exhaustive=True,
          rule="all first-attempt tapes enumerated per sampler call; equal pre-image count for every value of the range"),
    Check("boundary", run=run_boundary, strategy=strat_boundary, examples=(3000, 80000), shards=(2, 8),
          rule="boundary tapes at 17..600-bit ranges vs the masking rejection sampler"),
    Check("consumers", run=run_consumer, strategy=strat_consumer, examples=(160, 3000), shards=(4, 12),
          rule="ECC.generate / FIPS nonces / DSA x equal the documented sampler on the tape; same tape => same key"),
    Check("spy", run=run_spy, strategy=strat_spy, examples=(120, 2000), shards=(2, 8),
          rule="every Integer.random/random_range result drawn inside decrypt/sign (blinding, nonces) lies in its requested interval under boundary entropy"),
]
