"""C16 — interchangeable implementations (AES-NI, CLMUL, integer back-ends) agree exactly."""
import json
import os
import subprocess
import sys

from hypothesis import strategies as st

from ..core import Check, Violation, HarnessError, Skip, libcall, enc, dec
from .. import gen, oracles, sym
from . import c14

META = {
    "rule": "pure differential between configurations: AES with use_aesni True/False over every mode, key size, lengths "
            "(<1 block, 7/8/9 blocks, multi-KiB), unaligned writable memoryviews and in-place output; GCM with use_clmul x use_aesni "
            "(lengths around 16 and the 4/8-block unrolling); the three Integer classes on the C14 operand generator (value, public "
            "result type, exception type); the public-key stack (RSA/DSA/ECC construct, sign, encrypt, primality, prime and key "
            "generation with tapes, single-precondition violations) executed as the same generated script in three worker "
            "processes (default, PYCRYPTODOME_DISABLE_GMP=1, forced IntegerNative). Non-trivial = length < 1 block or not a multiple "
            "of 8 blocks or unaligned buffer; word-boundary/negative/exception operands; scripts touching >=2 back-end dependent "
            "operations; distinct by (variant pair, operation, size class)",
    "assumptions": ["availability of AES-NI, PCLMULQDQ and libgmp on the host is checked first; a missing variant is reported as "
                    "unexplored (never a vacuous pass)"],
    "unexplored": [],
}


def availability():
    from Crypto.Util import _cpu_features
    from Crypto.Cipher import AES
    import Crypto.Cipher._mode_gcm as g
    return {"aesni": bool(_cpu_features.have_aes_ni()) and AES._raw_aesni_lib is not None,
            "clmul": bool(_cpu_features.have_clmul()) and g._ghash_clmul is not None}


# ------------------------------------------------------------------ AES-NI vs portable
AES_MODES = ["ECB", "CBC", "CFB", "OFB", "CTR", "OPENPGP", "GCM", "CCM", "EAX", "SIV", "OCB", "KW", "KWP"]


@st.composite
def strat_aes(draw, tier):
    mode = draw(st.sampled_from(AES_MODES))
    if mode in ("GCM", "CCM", "EAX", "SIV", "OCB"):
        spec = draw(sym.aead_spec(modes_=(mode,)))
        while spec["cipher"] != "AES":
            spec = draw(sym.aead_spec(modes_=(mode,)))
    elif mode in ("KW", "KWP"):
        kl = draw(st.sampled_from([16, 24, 32]))
        spec = {"kind": "kw", "cipher": "AES", "mode": mode, "key": draw(st.binary(min_size=kl, max_size=kl))}
    else:
        spec = draw(sym.block_spec(ciphers=["AES"], modes_=[mode]))
    n = draw(st.one_of(st.integers(0, 40), st.sampled_from([15, 16, 17, 7 * 16, 8 * 16 - 1, 8 * 16, 8 * 16 + 1, 9 * 16, 16 * 16, 17 * 16 + 3, 4096, 5000])))
    if mode in ("ECB", "CBC"):
        n -= n % 16
    if mode == "KW":
        n = max(16, n - n % 8)
    if mode == "KWP":
        n = max(1, n)
    if mode == "CCM":
        n = min(n, (1 << (8 * (15 - len(spec["nonce"])))) - 1)
    return {"spec": spec, "data": draw(gen.data_of(st.just(n))), "aad": draw(gen.data_of(st.one_of(st.integers(0, 40), st.sampled_from([0, 16, 17, 129])))),
            "buf": draw(st.sampled_from(gen.BUFKINDS)), "inplace": draw(st.booleans()), "cut": draw(st.integers(0, max(0, n)))}


def run_one_aes(spec, data, aad, buf, inplace, cut, **kw):
    """Returns a JSON-able outcome for one configuration."""
    mode = spec["mode"]
    out = {}
    try:
        if mode in ("KW", "KWP"):
            from Crypto.Cipher import AES
            m = getattr(AES, "MODE_" + mode)
            ct = AES.new(spec["key"], m, **kw).seal(data)
            out["ct"] = bytes(ct)
            out["pt"] = bytes(AES.new(spec["key"], m, **kw).unseal(ct))
            return out
        obj = sym.lib_new(spec, **kw)
        if spec["kind"] == "aead":
            if mode == "SIV":
                obj.update(aad)
                ct, tag = obj.encrypt_and_digest(gen.as_buffer(data, buf))
            else:
                s2 = dict(spec)
                if mode == "CCM":
                    s2["msg_len"] = len(data)
                    obj = sym.lib_new(s2, **kw)
                obj.update(gen.as_buffer(aad, buf))
                if inplace and mode != "OCB":
                    b1 = bytearray(data)
                    mv = memoryview(b1)
                    if cut:
                        obj.encrypt(mv[:cut], output=mv[:cut])
                    if len(data) - cut or not cut:
                        obj.encrypt(mv[cut:], output=mv[cut:])
                    ct = bytes(b1)
                else:
                    ct = bytes(obj.encrypt(gen.as_buffer(data[:cut], buf))) + bytes(obj.encrypt(gen.as_buffer(data[cut:], buf)))
                    if mode == "OCB":
                        ct += bytes(obj.encrypt())
                tag = obj.digest()
            out["ct"], out["tag"] = bytes(ct), bytes(tag)
            d = sym.lib_new(s2 if mode not in ("SIV",) else spec, **kw)
            d.update(aad)
            out["pt"] = bytes(d.decrypt_and_verify(out["ct"], out["tag"]))
        else:
            if inplace and mode != "OPENPGP":
                b1 = bytearray(data)
                obj.encrypt(b1, output=b1)
                ct = bytes(b1)
            else:
                ct = bytes(obj.encrypt(gen.as_buffer(data, buf)))
            out["ct"] = ct
            s2 = dict(spec)
            body = ct
            if mode == "OPENPGP":
                s2["iv"] = ct[:18]
                body = ct[18:]
            out["pt"] = bytes(sym.lib_new(s2, **kw).decrypt(body))
    except Exception as e:       # outcome includes the exception type: it must be the same in every configuration
        out["exc"] = type(e).__name__
    return out


def run_aes(case, rec):
    av = availability()
    if not av["aesni"]:
        rec.event("unavailable:aesni")
        raise Skip()
    spec = case["spec"]
    a = run_one_aes(spec, case["data"], case["aad"], case["buf"], case["inplace"], case["cut"], use_aesni=True)
    b = run_one_aes(spec, case["data"], case["aad"], case["buf"], case["inplace"], case["cut"], use_aesni=False)
    if a != b:
        key = next(k for k in sorted(set(a) | set(b)) if a.get(k) != b.get(k))
        raise Violation("aesni/%s/%s-differs" % (spec["mode"], key), "AES-NI and portable AES disagree on %s (len %d)" % (key, len(case["data"])),
                        spec=spec, len=len(case["data"]), buf=case["buf"], inplace=case["inplace"])
    n = len(case["data"])
    if n < 16 or n % 128 or case["buf"] != "bytes" or case["inplace"]:
        rec.nt("aesni", spec["mode"], len(spec["key"]), gen.length_class(n, 16), case["buf"], case["inplace"])
    rec.event("aesni:" + spec["mode"])
    rec.sample({"mode": spec["mode"], "keylen": len(spec["key"]), "len": n, "buf": case["buf"], "inplace": case["inplace"]})


# ------------------------------------------------------------------ GHASH with and without CLMUL
@st.composite
def strat_gcm(draw, tier):
    spec = draw(sym.aead_spec(modes_=("GCM",)))
    lens = st.one_of(st.integers(0, 50), st.sampled_from([15, 16, 17, 31, 32, 33, 47, 48, 49, 63, 64, 65, 111, 112, 113, 127, 128, 129, 255, 256, 257, 1000, 4096]))
    return {"spec": spec, "aad": draw(gen.data_of(lens)), "pt": draw(gen.data_of(lens)),
            "acut": draw(st.integers(0, 300)), "buf": draw(st.sampled_from(gen.BUFKINDS))}


def run_gcm(case, rec):
    av = availability()
    if not av["clmul"]:
        rec.event("unavailable:clmul")
        raise Skip()
    spec, aad, pt = case["spec"], case["aad"], case["pt"]
    res = {}
    for clmul in (True, False):
        for aesni in ((True, False) if av["aesni"] else (False,)):
            o = sym.lib_new(spec, use_clmul=clmul, use_aesni=aesni)
            cut = min(case["acut"], len(aad))
            o.update(gen.as_buffer(aad[:cut], case["buf"]))
            o.update(gen.as_buffer(aad[cut:], case["buf"]))
            ct, tag = o.encrypt_and_digest(gen.as_buffer(pt, case["buf"]))
            d = sym.lib_new(spec, use_clmul=clmul, use_aesni=not aesni if av["aesni"] else False)
            d.update(aad)
            k, back = libcall(d.decrypt_and_verify, ct, tag, allowed=(ValueError,), bucket="clmul/decrypt")
            res[(clmul, aesni)] = (bytes(ct), bytes(tag), k, bytes(back) if k == "ok" else None)
    vals = list(res.values())
    if any(v != vals[0] for v in vals):
        raise Violation("clmul/gcm-differs", "GCM results differ between use_clmul/use_aesni settings: %r" % {str(k): v[1].hex() for k, v in res.items()},
                        spec=spec, aad_len=len(aad), pt_len=len(pt))
    if vals[0][2] != "ok" or vals[0][3] != pt:
        raise Violation("clmul/gcm-roundtrip", "cross-configuration decrypt_and_verify failed", spec=spec)
    rec.nt("clmul", len(spec["key"]), len(spec["nonce"]), spec["mac_len"], gen.length_class(len(aad), 16), gen.length_class(len(pt), 16), case["buf"])
    rec.event("gcm-clmul")
    rec.sample({"keylen": len(spec["key"]), "noncelen": len(spec["nonce"]), "aad": len(aad), "pt": len(pt)})


# ------------------------------------------------------------------ integer back-ends in one process
def outcome(thunk):
    try:
        r = thunk()
    except Exception as e:
        return ("exc", type(e).__name__)
    if r is NotImplemented:
        return ("NotImplemented",)
    if isinstance(r, bool):
        return ("bool", r)
    if isinstance(r, int):
        return ("int", r)
    if isinstance(r, (bytes, bytearray)):
        return ("bytes", bytes(r))
    if isinstance(r, str):
        return ("str", r)
    if r is None:
        return ("None",)
    if hasattr(r, "_value") or hasattr(r, "_mpz_p"):
        return ("Integer", int(r))
    return (type(r).__name__, repr(r))


def int_thunks(I, case):
    """List of (name, thunk) exercising one generated operation on back-end I."""
    g, op = case["group"], case["op"]
    a, b, c = case.get("a"), case.get("b"), case.get("c")
    A = I(a)

    def W(v, as_int):
        return v if as_int else I(v)
    if g == "bin":
        fn = c14.BINOPS[op][1]
        return [(op, lambda: fn(A, W(b, case["b_as_int"])))]
    if g == "inplace":
        fn = c14.INPLACE[op][1]
        B = A if case["alias"] else W(b, case["b_as_int"])
        return [(op, lambda: fn(A, B)), (op + ":after", lambda: int(A))]
    if g == "un":
        fn = c14.UNOPS[op][1]
        return [(op, lambda: fn(A))]
    if g == "shift":
        if b > 5000 and op in ("lshift", "ilshift"):
            return []
        N = W(b, case["b_as_int"])
        f = {"rshift": lambda: A >> N, "lshift": lambda: A << N, "irshift": lambda: A.__irshift__(N), "ilshift": lambda: A.__ilshift__(N),
             "get_bit": lambda: A.get_bit(N)}[op]
        return [(op, f)]
    if g == "powmod":
        E, M = W(b, case["b_as_int"]), W(c, case["c_as_int"])
        if op == "pow3":
            return [(op, lambda: pow(A, E, M))]
        return [(op, lambda: A.inplace_pow(E, M)), (op + ":after", lambda: int(A))]
    if g == "bytes":
        if op == "to_bytes":
            return [(op, lambda: A.to_bytes(b, case["order"]))]
        if a < 0:
            return []
        raw = bytes(case["lead"]) + a.to_bytes(max(1, (a.bit_length() + 7) // 8), "big")
        return [(op, lambda: I.from_bytes(raw, case["order"]))]
    if g == "jacobi":
        return [(op, lambda: I.jacobi_symbol(W(a, case["b_as_int"]), W(b, case["b_as_int"])))]
    if g == "sqrtmod":
        ps = c14.sqrt_primes()
        p = ps[case["pidx"] % len(ps)]
        v = a * a if case["square_it"] else a
        # roots are not unique: compare r*r mod p and the exception type, not r itself
        def f():
            r = I(v).sqrt(W(p, case["c_as_int"]))
            return (int(r) * int(r) - v) % p == 0 and 0 <= int(r) < p
        return [(op, f), (op + ":type", lambda: type(I(v * v).sqrt(W(p, case["c_as_int"]))).__name__ == I.__name__)]
    if g == "misc":
        C = W(c, case["c_as_int"])
        if op == "multiply_accumulate":
            B = A if case["alias"] else W(b, case["b_as_int"])
            return [(op, lambda: A.multiply_accumulate(B, C)), (op + ":after", lambda: int(A))]
        if op == "fail_if_divisible_by":
            sp = abs(c)
            if sp < 2:
                return []
            return [(op, lambda: A.fail_if_divisible_by(W(sp, case["c_as_int"])))]
        if op == "ctor":
            return [(op, lambda: I(I(a))), ("ctor-float", lambda: I(1.5)), ("ctor-bool", lambda: I(True))]
        if op == "eq_none":
            return [(op, lambda: A == None), ("ne_none", lambda: A != None)]  # noqa: E711
    if g == "mmb":
        return [(op, lambda: I._mult_modulo_bytes(I(a), I(b), I(c))), (op + ":int", lambda: I._mult_modulo_bytes(a, b, c))]
    return []


def violates_two_preconditions(case):
    """Cases that break more than one documented precondition at once have no defined exception type."""
    g = case["group"]
    a, b, c = case.get("a"), case.get("b"), case.get("c")
    if g == "powmod":
        e = a if case.get("alias") else b
        return (b < 0) + (c <= 0) >= 2
    if g == "mmb":
        return c is not None and c <= 0
    return False


def run_ints(case, rec):
    if violates_two_preconditions(case):
        raise Skip()
    case = dict(case)
    if case["group"] == "powmod" and case.get("alias"):
        case["alias"] = False      # aliasing exponent/base is C14's concern; keep operands identical across back-ends
    outs = {}
    for be in c14.BACKENDS:
        I = c14.get_backend(be)
        outs[be] = [(n, outcome(t)) for n, t in int_thunks(I, case)]
    ref = outs["gmp"]
    for be in ("custom", "native"):
        if outs[be] != ref:
            i = next(i for i in range(len(ref)) if outs[be][i] != ref[i])
            name = ref[i][0]
            kind = "type" if ref[i][1][0] != outs[be][i][1][0] else "exception" if ref[i][1][0] == "exc" else "value"
            raise Violation("ints/%s/%s-differs/%s-vs-gmp" % (name, kind, be),
                            "%s: gmp -> %s, %s -> %s" % (name, str(ref[i][1])[:100], be, str(outs[be][i][1])[:100]),
                            a=case.get("a"), b=case.get("b"), c=case.get("c"), case_op=case["op"])
    a, b = case.get("a"), case.get("b")
    if c14.at_boundary(a) or a < 0 or (isinstance(b, int) and (b < 0 or c14.at_boundary(b))) or any(o[1][0] == "exc" for o in ref):
        rec.nt("ints", case["op"], c14.sizeclass(a), c14.sizeclass(b) if isinstance(b, int) else "", any(o[1][0] == "exc" for o in ref))
    rec.event("ints:" + case["op"])
    rec.sample({"op": case["op"], "a": a, "b": b, "c": case.get("c"), "outcome": str(ref[0][1])[:60] if ref else None})


# ------------------------------------------------------------------ public-key stack in three worker processes
WORKER_ENVS = [("default", {}), ("nogmp", {"PYCRYPTODOME_DISABLE_GMP": "1"}), ("native", {"PCDVERIF_FORCE_NATIVE": "1"})]

OPS = ["rsa_construct", "rsa_recover", "rsa_raw", "rsa_pkcs1_sign", "rsa_pss_sign", "rsa_oaep", "rsa_v15_enc", "dsa_rfc6979", "dsa_fips_tape",
       "ecdsa_rfc6979", "ecdsa_fips_tape", "ecc_construct", "ecc_decompress", "dsa_construct_bad", "primality", "gen_prime_tape",
       "rsa_generate_tape", "ecc_offcurve", "rsa_construct_bad", "ecc_mul", "eddsa_sign", "ecdh", "inverse_fail"]


@st.composite
def strat_script(draw, tier):
    n = draw(st.integers(2, 6))
    ops = []
    for _ in range(n):
        op = draw(st.sampled_from(OPS if tier == "thorough" else [o for o in OPS if o != "rsa_generate_tape"] + (["rsa_generate_tape"] if draw(st.integers(0, 9)) == 0 else [])))
        ops.append({"op": op, "seed": draw(st.binary(min_size=8, max_size=8)), "n": draw(st.integers(0, 1000)),
                    "msg": draw(st.binary(max_size=50))})
    return {"ops": ops}


_POOL = []


def pool():
    """Three long-lived worker processes (default / no GMP / forced native), started on first use."""
    if _POOL:
        return _POOL
    import atexit
    base_env = dict(os.environ)
    for name, extra in WORKER_ENVS:
        env = dict(base_env)
        env.pop("PYCRYPTODOME_DISABLE_GMP", None)
        env.pop("PCDVERIF_FORCE_NATIVE", None)
        env.update(extra)
        p = subprocess.Popen([sys.executable, "-m", "pcdverif.props.c16_worker"], env=env, stdin=subprocess.PIPE, stdout=subprocess.PIPE,
                             stderr=subprocess.DEVNULL)
        line = p.stdout.readline()
        if not line:
            raise HarnessError("c16 worker %s did not start" % name)
        _POOL.append((name, p, json.loads(line.decode())))

    def stop():
        for _, p, _ in _POOL:
            try:
                p.stdin.close()
                p.wait(timeout=3)
            except Exception:
                p.kill()
    atexit.register(stop)
    return _POOL


def run_pubkey(case, rec):
    procs = pool()
    names = [h["integer"] for _, _, h in procs]
    rec.note("worker_integer_classes", names)
    if len(set(names)) != 3:
        rec.note("unexplored", "could not obtain three distinct Integer back-ends: %r" % names)
        rec.event("pubkey:fewer-than-3-backends")
    outs = []
    blob = (json.dumps(enc(case)) + "\n").encode()
    for name, p, _ in procs:
        p.stdin.write(blob)
        p.stdin.flush()
        line = p.stdout.readline()
        if not line:
            raise HarnessError("c16 worker %s died" % name)
        outs.append(json.loads(line.decode()))
    ref = outs[0]
    for (name, _, _), o in zip(procs[1:], outs[1:]):
        if o != ref:
            i = next(i for i in range(len(ref)) if i >= len(o) or o[i] != ref[i])
            opn = case["ops"][i]["op"]
            raise Violation("pubkey/%s/differs/%s-vs-default" % (opn, name),
                            "operation %s: default -> %s, %s -> %s" % (opn, str(ref[i])[:160], name, str(o[i])[:160] if i < len(o) else None))
    if len(case["ops"]) >= 2:
        rec.nt("pubkey", tuple(o["op"] for o in case["ops"]))
    for o, r in zip(case["ops"], ref):
        rec.event("pubkey:%s%s" % (o["op"], ":exc" if isinstance(r, dict) and "exc" in r else ""))
    rec.sample({"ops": [o["op"] for o in case["ops"]]})


CHECKS = [
    Check("aesni", run=run_aes, strategy=strat_aes, examples=(24000, 500000), shards=(16, 16),
          rule="AES use_aesni=True vs False on every mode (ciphertext, tag, plaintext, exception type)"),
    Check("clmul", run=run_gcm, strategy=strat_gcm, examples=(10000, 200000), shards=(8, 16),
          rule="GCM use_clmul x use_aesni: identical ciphertext/tag, cross-configuration decrypt"),
    Check("ints", run=run_ints, strategy=c14.strat_arith, examples=(40000, 800000), shards=(16, 16),
          rule="IntegerGMP vs IntegerCustom vs IntegerNative: same value, public result type and exception type per operation"),
    Check("pubkey", run=run_pubkey, strategy=strat_script, examples=(260, 6000), shards=(8, 16),
          rule="same generated public-key script in three processes (default / no GMP / forced native Integer): identical outputs"),
]
