"""C04 — signatures verify after signing; verify rejects all that the standard rejects."""
import hashlib

from hypothesis import strategies as st

from ..core import Check, Violation, HarnessError, Skip, libcall
from .. import gen, keys, oracles
from ..refs import ec, der, rsa_pkcs1 as rp

META = {
    "rule": "keys from harness-built numbers (RSA 1024/1025/1031/2048 bits; DSA on FIPS (L,N) pairs; ECDSA on five NIST curves; Ed25519/Ed448 "
            "incl. the identity public key); hashes as each scheme permits; DSS modes x encodings; PSS salt lengths 0..max and custom MGF; "
            "EdDSA pure/prehash/context. Candidate signatures: genuine; generic mutations (flip, truncate, extend, other message, other "
            "key); scheme-specific constructions (r or s in {0, q, q+d, 2^bits-1}, (r, q-s), DER with leading zero / long form / indefinite / "
            "trailing bytes / negative / wrong tag / 3 members; ECDSA pairs crafted for a derived key (s of chosen byte length, d solved from s = k^-1(z + r d)) so that "
            "the DER body takes lengths sign() never produces, incl. 127/128 on P-521; EdDSA S+L, S=L, non-canonical R/A (y >= p, x=0 with sign bit, stray bits), R "
            "off curve, length +-1; RSA signatures EM^d mod n for crafted encoded messages: wrong trailer, top bits set, PS non-zero, missing "
            "01, salt length off by one, missing/duplicated NULL, BER long-form DigestInfo, short PS, 00 02 header, trailing garbage), "
            "signatures >= n, wrong length. Oracle: pure-Python verifiers written from FIPS 186-4 / RFC 8017 / RFC 8032 (soundness only: "
            "whenever the reference says invalid the library must raise ValueError; reference-valid but rejected is counted as "
            "completeness_gap). Deterministic signers compared byte-for-byte. Non-trivial = any candidate other than an untouched genuine "
            "signature, or a genuine one with non-default options; distinct by (scheme, key class, hash, options, candidate class)",
    "assumptions": ["reference verifiers/signers in pcdverif/refs/ec.py and rsa_pkcs1.py (validated against RFC/NIST/Wycheproof vectors and OpenSSL)",
                    "a signature the standard accepts but the library rejects is outside the statement unless sign() produced it"],
    "unexplored": ["signatures by sign() whose R.x >= n (probability 2^-128)", "DSA 3072-bit keys only in the thorough tier"],
}


class Tape:
    def __init__(self, seed):
        self.h = hashlib.shake_128(b"c04" + bytes(seed))
        self.pos = 0

    def __call__(self, n):
        out = self.h.digest(self.pos + n)[self.pos:]
        self.pos += n
        return out


def flip(b, pos):
    b = bytearray(b)
    if not b:
        return bytes(b)
    i = pos % (len(b) * 8)
    b[i // 8] ^= 1 << (i % 8)
    return bytes(b)


def check_verdict(scheme, cand_kind, ref_valid, lib_kind, lib_res, rec, info, genuine=False):
    """Soundness: reference-invalid must be rejected with ValueError. Genuine signatures must verify."""
    if genuine and lib_kind != "ok":
        raise Violation("%s/genuine-signature-rejected" % scheme, "verify() rejected a signature produced by sign(): %s" % lib_res, **info)
    if not ref_valid and lib_kind == "ok":
        raise Violation("%s/invalid-signature-accepted/%s" % (scheme, cand_kind), "verify() accepted a %s candidate that the standard defines as invalid" % cand_kind, **info)
    if ref_valid and lib_kind != "ok" and not genuine:
        rec.event("completeness_gap:%s:%s" % (scheme, cand_kind))


# ------------------------------------------------------------------ RSA PKCS#1 v1.5
RSA_BITS = [1024, 1025, 1025, 1031, 2048]
V15_HASHES = ["SHA1", "SHA224", "SHA256", "SHA384", "SHA512", "SHA512-256", "SHA3_256", "SHA3_512", "MD5", "RIPEMD160"]
V15_CANDS = ["genuine", "flip", "trunc", "extend", "other-msg", "other-key", "no-null", "ber-longform", "short-ps", "header-0002", "trailing-garbage",
             "wrong-oid", "wrong-digest", "ps-zero-byte", "sig>=n", "dup-null", "leading-zero-stripped", "em-first-byte", "ps-00-start"]

_RSA = {}


def rsa_key(bits, idx=0):
    if (bits, idx) not in _RSA:
        from Crypto.PublicKey import RSA
        nums = keys.rsa_numbers(bits, idx)
        _RSA[(bits, idx)] = (RSA.construct(nums), nums)
    return _RSA[(bits, idx)]


def rsa_priv(nums, em):
    m = int.from_bytes(em, "big")
    if m >= nums[0]:
        return None
    k = (nums[0].bit_length() + 7) // 8
    return pow(m, nums[2], nums[0]).to_bytes(k, "big")


def reuse_first(obj, method, pos, current, arg_len=0):
    """Every third case: use the signer/verifier object on a message hashed with a *different* algorithm before the call under test
    (scheme objects are documented as reusable: what an object did before must not influence the next sign()/verify())."""
    if pos % 3:
        return False
    other = "SHA512" if current != "SHA512" else "SHA256"
    h = oracles.lib_hash_new(other, b"warm-up message")
    try:
        if method == "sign":
            obj.sign(h)
        else:
            obj.verify(h, bytes(arg_len))
    except (ValueError, TypeError):
        pass
    return True



@st.composite
def strat_v15(draw, tier):
    bits = draw(st.sampled_from(RSA_BITS if tier == "thorough" else RSA_BITS[:4]))
    h = draw(st.sampled_from(V15_HASHES))
    if draw(st.integers(0, 6)) == 0:
        # the smallest moduli: k = tLen + 11 is the minimum of EMSA-PKCS1-v1_5 (8 bytes of FF), k = tLen + 10 must be refused at signing
        try:
            tlen = len(rp.emsa_pkcs1_v15(h.replace("_", "-"), bytes(oracles.HASHES[h][1]), 256).split(b"\x00", 2)[2])
            bits = 8 * (tlen + 11 + draw(st.sampled_from([-1, 0, 0, 1]))) - draw(st.sampled_from([0, 0, 3]))
        except (ValueError, KeyError, IndexError):
            pass
    return {"bits": bits, "hash": h,
            "msg": draw(st.binary(max_size=60)), "cand": draw(st.sampled_from(V15_CANDS)), "pos": draw(st.integers(0, 10 ** 6))}


def run_v15(case, rec):
    from Crypto.Signature import pkcs1_15
    kobj, nums = rsa_key(case["bits"])
    n, e, d = nums[0], nums[1], nums[2]
    k = (n.bit_length() + 7) // 8
    hname, msg, cand = case["hash"], case["msg"], case["cand"]
    hf = oracles.HASHES[hname][0]
    digest = hf(msg)
    ref_name = hname.replace("_", "-")
    info = {"bits": case["bits"], "hash": hname, "cand": cand}
    try:
        em_ok = rp.emsa_pkcs1_v15(ref_name, digest, k)
    except KeyError:
        raise Skip()
    except ValueError:
        # "intended encoded message length too short": the library must refuse to sign, too
        # (the docstring promises ValueError, the code raises TypeError: outside C04's statement, counted only)
        kk_, r_ = libcall(pkcs1_15.new(kobj).sign, oracles.lib_hash_new(hname, msg), allowed=(ValueError, TypeError), bucket="pkcs1v15/sign")
        if kk_ == "exc" and isinstance(r_, TypeError):
            rec.event("doc-mismatch:pkcs1v15-key-too-small-raises-TypeError")
        if kk_ == "ok":
            raise Violation("pkcs1v15/signed-with-too-small-key", "a %d-byte modulus cannot hold DigestInfo(%s) + 11 bytes, yet sign() returned" % (k, hname), **info)
        rec.nt("v15", "key-too-small", hname)
        rec.event("pkcs1v15:key-too-small-refused")
        return
    h = oracles.lib_hash_new(hname, msg)
    signer = pkcs1_15.new(kobj)
    if reuse_first(signer, "sign", case["pos"], hname):
        rec.event("pkcs1v15:signer-reused-across-hashes")
    sig = bytes(signer.sign(h))
    exp_sig = rsa_priv(nums, em_ok)
    if sig != exp_sig:
        raise Violation("pkcs1v15/signature-not-rfc8017", "signature differs from EMSA-PKCS1-v1_5(H(m))^d mod n", **info)
    if bytes(h.digest()) != digest or bytes(signer.sign(h)) != sig:
        raise Violation("pkcs1v15/sign-consumes-hash", "second sign() with the same hash object differs / digest changed", **info)
    vkey = kobj.public_key()
    vmsg = msg
    pos = case["pos"]
    genuine = cand == "genuine"
    if cand == "genuine":
        c = sig
    elif cand == "flip":
        c = flip(sig, pos)
    elif cand == "trunc":
        c = sig[:-1]
    elif cand == "extend":
        c = sig + b"\0" if pos % 2 else b"\0" + sig
    elif cand == "other-msg":
        c, vmsg = sig, msg + b"x"
    elif cand == "other-key":
        c, vkey = sig, rsa_key(case["bits"], 1)[0].public_key()
    elif cand == "sig>=n":
        v = int.from_bytes(sig, "big") + n
        if v.bit_length() > 8 * k:
            raise Skip()
        c = v.to_bytes(k, "big")
    elif cand == "leading-zero-stripped":
        c = sig.lstrip(b"\0")
        if len(c) == len(sig):
            c = sig[1:]
    else:
        t_null = rp.digest_info(ref_name, digest, with_null=True)
        t_nonull = rp.digest_info(ref_name, digest, with_null=False)

        def build(t, ps_len=None, header=b"\x00\x01", tail=b""):
            pl = k - 3 - len(t) - len(tail) if ps_len is None else ps_len
            if pl < 0:
                return None
            em = header + b"\xff" * pl + b"\x00" + t + tail
            return em if len(em) == k else None
        if cand == "no-null":
            em = build(t_nonull)
        elif cand == "dup-null":
            # AlgorithmIdentifier with two NULLs
            oid = der.enc_oid(rp.HASH_OIDS[rp.canonical_hash_name(ref_name)]) if hasattr(rp, "canonical_hash_name") else None
            if oid is None:
                raise Skip()
            em = build(der.enc_seq([der.enc_seq([oid, der.enc_null(), der.enc_null()]), der.enc_octets(digest)]))
        elif cand == "ber-longform":
            # outer SEQUENCE length in long form (0x81 nn): BER, not DER
            body = t_null[2:]
            if len(body) > 127 or t_null[1] & 0x80:
                raise Skip()
            em = build(b"\x30\x81" + bytes([len(body)]) + body)
        elif cand == "short-ps":
            em = build(t_null, ps_len=k - 3 - len(t_null) - 8, tail=b"\xAA" * 8)
        elif cand == "trailing-garbage":
            em = build(t_null, tail=bytes([1 + pos % 255]) * (1 + pos % 9))
        elif cand == "header-0002":
            em = build(t_null, header=b"\x00\x02")
        elif cand == "wrong-oid":
            other = "SHA-256" if ref_name not in ("SHA-256", "SHA256") else "SHA-512"
            try:
                em = build(rp.digest_info(other, digest, with_null=True, check_digest_len=False) if "check_digest_len" in rp.digest_info.__code__.co_varnames else None)
            except Exception:
                em = None
        elif cand == "wrong-digest":
            em = build(rp.digest_info(ref_name, flip(digest, pos), with_null=True))
        elif cand == "ps-zero-byte":
            em = build(t_null)
            if em is not None and k - 3 - len(t_null) >= 2:
                em = bytearray(em)
                em[2 + pos % (k - 3 - len(t_null))] = 0
                em = bytes(em)
        elif cand == "em-first-byte":
            em = build(t_null, header=b"\x01\x01")
        elif cand == "ps-00-start":
            em = build(t_null)
            if em is not None:
                em = em[:2] + b"\x00" + em[3:]
        else:
            raise HarnessError(cand)
        if em is None:
            raise Skip()
        c = rsa_priv(nums, em)
        if c is None:
            raise Skip()
    # reference verdict
    ref_valid = False
    if len(c) == k and int.from_bytes(c, "big") < int(vkey.n):
        em_c = pow(int.from_bytes(c, "big"), int(vkey.e), int(vkey.n)).to_bytes(k, "big")
        ref_valid = rp.pkcs1v15_sig_verify_em(em_c, ref_name, hf(vmsg))
    hv = oracles.lib_hash_new(hname, vmsg)
    verifier = pkcs1_15.new(vkey)
    reuse_first(verifier, "verify", case["pos"] // 3, hname, k)
    kind, r = libcall(verifier.verify, hv, c, allowed=(ValueError,), bucket="pkcs1v15/verify")
    check_verdict("pkcs1v15", cand, ref_valid, kind, r, rec, info, genuine)
    kind2, _ = libcall(verifier.verify, hv, c, allowed=(ValueError,), bucket="pkcs1v15/verify")
    if kind2 != kind or bytes(hv.digest()) != hf(vmsg):
        raise Violation("pkcs1v15/verify-not-repeatable", "second verify() gave another outcome or the hash object changed", **info)
    if cand != "genuine" or hname != "SHA256":
        rec.nt("pkcs1v15", case["bits"], hname, cand, ref_valid)
    rec.event("pkcs1v15:%s:%s" % (cand, "valid" if ref_valid else "invalid"))
    rec.sample(info)


# ------------------------------------------------------------------ RSA PSS
PSS_CANDS = ["genuine", "genuine", "flip", "trunc", "extend", "other-msg", "other-key", "trailer", "top-bits", "ps-nonzero", "sep-missing", "salt-shorter",
             "salt-longer", "h-wrong", "sig>=n", "verifier-other-slen", "em-overflow", "em-overflow"]
PSS_HASHES = ["SHA1", "SHA256", "SHA384", "SHA512", "SHA3_256"]


@st.composite
def strat_pss(draw, tier):
    bits = draw(st.sampled_from(RSA_BITS if tier == "thorough" else RSA_BITS[:4]))
    h = draw(st.sampled_from(PSS_HASHES))
    hl = oracles.HASHES[h][1]
    if draw(st.integers(0, 6)) == 0:
        # the smallest moduli for this hash: emLen = hLen + 2 (only the empty salt fits), a little more, and modBits = 8t+1 (emLen = k-1)
        bits = 8 * (hl + 2 + draw(st.sampled_from([0, 0, 1, 2, hl]))) + draw(st.sampled_from([1, 1, 0, -3]))
    em_len = (bits - 1 + 7) // 8
    mx = em_len - hl - 2
    return {"bits": bits, "hash": h, "slen": draw(st.one_of(st.none(), st.sampled_from([0, 1, hl, mx, mx - 1]), st.integers(0, max(0, mx)))),
            "mgf_hash": draw(st.sampled_from([None, None, "SHA1", "SHA512"])), "msg": draw(st.binary(max_size=60)), "cand": draw(st.sampled_from(PSS_CANDS)),
            "pos": draw(st.integers(0, 10 ** 6)), "seed": draw(st.binary(min_size=8, max_size=8))}


def run_pss(case, rec):
    from Crypto.Signature import pss
    kobj, nums = rsa_key(case["bits"])
    n = nums[0]
    k = (n.bit_length() + 7) // 8
    em_bits = n.bit_length() - 1
    em_len = (em_bits + 7) // 8
    hname, msg, cand = case["hash"], case["msg"], case["cand"]
    hf, hl = oracles.HASHES[hname][0], oracles.HASHES[hname][1]
    mx = em_len - hl - 2
    if mx < 0:
        raise Skip()
    slen_cfg = case["slen"]
    if slen_cfg is not None and slen_cfg < 0:
        raise Skip()
    slen = hl if slen_cfg is None else min(slen_cfg, mx)
    if slen_cfg is not None:
        slen_cfg = slen
    if slen > mx:
        # default salt length (hLen) does not fit this modulus: signing must be refused (RFC 8017 9.1.1 step 3)
        kk_, r_ = libcall(pss.new(kobj, rand_func=Tape(case["seed"])).sign, oracles.lib_hash_new(hname, msg), allowed=(ValueError,), bucket="pss/sign")
        if kk_ == "ok":
            raise Violation("pss/signed-with-too-small-key", "emLen %d < hLen + sLen + 2, yet sign() returned" % em_len, bits=case["bits"], hash=hname)
        rec.nt("pss", "key-too-small", hname)
        rec.event("pss:key-too-small-refused")
        return
    mgf_h = case["mgf_hash"]
    if mgf_h:
        mf = oracles.HASHES[mgf_h][0]
        mgf = lambda seed, ln: rp.mgf1(seed, ln, mf)
    else:
        mgf = None
    kw = {}
    if slen_cfg is not None:
        kw["salt_bytes"] = slen_cfg
    if mgf:
        kw["mask_func"] = mgf
    mhash = hf(msg)
    info = {"bits": case["bits"], "hash": hname, "slen": slen_cfg, "mgf": mgf_h, "cand": cand}
    signer = pss.new(kobj, rand_func=Tape(case["seed"]), **kw)
    h = oracles.lib_hash_new(hname, msg)
    skip_ = 0
    if slen_cfg is not None and em_len >= 64 + slen_cfg + 2 and reuse_first(signer, "sign", case["pos"] // 3, hname):
        skip_ = slen_cfg        # the warm-up signature (SHA-512 or SHA-256) drew its salt from the same tape
        rec.event("pss:signer-reused-across-hashes")
    sig = bytes(signer.sign(h))
    salt = Tape(case["seed"])(skip_ + slen)[skip_:]
    em_ref = rp.pss_encode(mhash, em_bits, salt, hf, hl, mgf)
    exp = pow(int.from_bytes(em_ref, "big"), nums[2], n).to_bytes(k, "big")
    if sig != exp:
        raise Violation("pss/signature-not-rfc8017", "signature differs from EMSA-PSS-ENCODE with the same salt", **info)
    if bytes(h.digest()) != mhash:
        raise Violation("pss/sign-consumes-hash", "hash object changed by sign()", **info)
    vkey, vmsg, vkw = kobj.public_key(), msg, dict(kw)
    pos = case["pos"]
    genuine = cand == "genuine"
    v_slen = slen
    if cand == "genuine":
        c = sig
    elif cand == "flip":
        c = flip(sig, pos)
    elif cand == "trunc":
        c = sig[1:]
    elif cand == "extend":
        c = b"\0" + sig
    elif cand == "other-msg":
        c, vmsg = sig, msg + b"y"
    elif cand == "other-key":
        c, vkey = sig, rsa_key(case["bits"], 1)[0].public_key()
    elif cand == "sig>=n":
        v = int.from_bytes(sig, "big") + n
        if v.bit_length() > 8 * k:
            raise Skip()
        c = v.to_bytes(k, "big")
    elif cand == "em-overflow":
        # valid encoding plus a multiple of 2^(8*emLen): representable only when k = emLen + 1 (modulus bits = 1 mod 8);
        # RFC 8017 8.1.2 step 2c (I2OSP) must fail
        if k == em_len:
            raise Skip()
        m2 = int.from_bytes(em_ref, "big") + (1 + pos % 3) * (1 << (8 * em_len))
        if m2 >= n:
            m2 = int.from_bytes(em_ref, "big") + (1 << (8 * em_len))
        if m2 >= n:
            raise Skip()
        c = pow(m2, nums[2], n).to_bytes(k, "big")
    elif cand == "verifier-other-slen":
        v_slen = slen + 1 if slen + 1 <= mx else slen - 1
        if v_slen < 0:
            raise Skip()
        vkw["salt_bytes"] = v_slen
        c = sig
    else:
        bk = {}
        s2 = salt
        if cand == "trailer":
            bk["trailer"] = [0xbd, 0xcc, 0x00, 0xbb][pos % 4]
        elif cand == "top-bits":
            if 8 * em_len - em_bits == 0:
                raise Skip()
            bk["top_bits_set"] = True
        elif cand == "ps-nonzero":
            pl = em_len - slen - hl - 2
            if pl < 1:
                raise Skip()
            ps = bytearray(pl)
            ps[pos % pl] = 1 + pos % 255
            bk["ps_override"] = bytes(ps)
        elif cand == "sep-missing":
            bk["sep"] = [0x00, 0x02, 0xff][pos % 3]
        elif cand == "salt-shorter":
            if slen < 1:
                raise Skip()
            s2 = salt[:-1]
        elif cand == "salt-longer":
            if slen + 1 > mx:
                raise Skip()
            s2 = salt + b"\x5a"
        elif cand == "h-wrong":
            bk["h_override"] = flip(hf(bytes(8) + mhash + salt), pos)
        try:
            em = rp.pss_build_em(mhash, em_bits, s2, hf, hl, mgf=mgf, **bk)
        except ValueError:
            raise Skip()
        if int.from_bytes(em, "big") >= n:
            raise Skip()
        c = pow(int.from_bytes(em, "big"), nums[2], n).to_bytes(k, "big")
    ref_valid = False
    if len(c) == k and int.from_bytes(c, "big") < int(vkey.n):
        m_int = pow(int.from_bytes(c, "big"), int(vkey.e), int(vkey.n))
        if m_int.bit_length() <= 8 * em_len:
            ref_valid = rp.pss_verify(hf(vmsg), m_int.to_bytes(em_len, "big"), em_bits, v_slen, hf, hl, mgf)
    hv = oracles.lib_hash_new(hname, vmsg)
    verifier = pss.new(vkey, **vkw)
    if reuse_first(verifier, "verify", case["pos"], hname, k):
        rec.event("pss:verifier-reused-across-hashes")
    kind, r = libcall(verifier.verify, hv, c, allowed=(ValueError,), bucket="pss/verify")
    check_verdict("pss", cand, ref_valid, kind, r, rec, info, genuine)
    kind2, _ = libcall(verifier.verify, hv, c, allowed=(ValueError,), bucket="pss/verify")
    if kind2 != kind or bytes(hv.digest()) != hf(vmsg):
        raise Violation("pss/verify-not-repeatable", "second verify() differs or hash object changed", **info)
    rec.nt("pss", case["bits"], hname, slen_cfg is None, slen in (0, mx), mgf_h, cand, ref_valid)
    rec.event("pss:%s:%s" % (cand, "valid" if ref_valid else "invalid"))
    rec.sample(info)


# ------------------------------------------------------------------ DSA / ECDSA
DSS_CANDS = ["genuine", "genuine", "flip", "trunc", "extend", "other-msg", "other-key", "r=0", "s=0", "r=q", "s=q", "r=q+d", "s=q+d", "r=max", "s=max",
             "s-negated", "der-leading-zero", "der-longform", "der-indefinite", "der-trailing", "der-negative", "der-wrong-tag", "der-3-members",
             "der-nonminimal-len", "binary-for-der", "der-for-binary", "r+q", "insert-00-mid", "insert-00-mid", "insert", "delete", "prepend-00", "widen-halves"]
CURVE_HASHES = {"p192": ["SHA224", "SHA256", "SHA512", "SHA3_256"], "p224": ["SHA224", "SHA256", "SHA3_512"], "p256": ["SHA256", "SHA384", "SHA512", "SHA3_256"],
                "p384": ["SHA384", "SHA512", "SHA3_384"], "p521": ["SHA512", "SHA3_512"]}
DSA_PAIRS = {(1024, 160): ["SHA1", "SHA256", "SHA512"], (2048, 224): ["SHA224", "SHA256"], (2048, 256): ["SHA256", "SHA512"], (3072, 256): ["SHA256", "SHA384"]}

_DSS = {}


def dss_key(kind, idx=0):
    """kind: curve name or (L, N). Returns (library key, ref descriptor)."""
    if (kind, idx) in _DSS:
        return _DSS[(kind, idx)]
    from Crypto.PublicKey import DSA, ECC
    if isinstance(kind, (tuple, list)):
        y, g, p, q, x = keys.dsa_numbers(kind[0], kind[1], idx)
        r = (DSA.construct((y, g, p, q, x)), {"type": "dsa", "p": p, "q": q, "g": g, "y": y, "x": x, "order": q})
    else:
        d = keys.ecc_scalar(kind, b"c04-%d" % idx)
        c = ec.CURVES[keys.REFNAME[kind]]
        Q = ec.ws_mul(c, d, (c["Gx"], c["Gy"]))
        r = (ECC.construct(curve=kind, d=d), {"type": "ec", "curve": c, "d": d, "Q": Q, "order": c["n"]})
    _DSS[(kind, idx)] = r
    return r


@st.composite
def strat_dss(draw, tier):
    if draw(st.integers(0, 3)) == 0:
        pairs = [(1024, 160)] if tier == "quick" else [(1024, 160), (2048, 224), (2048, 256), (3072, 256)]
        kind = list(draw(st.sampled_from(pairs)))
        h = draw(st.sampled_from(DSA_PAIRS[tuple(kind)]))
    else:
        kind = draw(st.sampled_from(keys.NIST))
        h = draw(st.sampled_from(CURVE_HASHES[kind]))
    if isinstance(kind, str) and draw(st.integers(0, 5)) == 0:
        # crafted signatures (see s_len below), with the DER-form candidates and the curve whose signatures straddle the 127/128-byte body over-represented
        if draw(st.booleans()):
            # the only place where a DSS signature body reaches the short/long-form boundary of the DER length: P-521 with len(s) around 57
            kind = "p521"
            return {"kind": kind, "hash": draw(st.sampled_from(CURVE_HASHES[kind])), "mode": "fips-186-3", "encoding": "der", "msg": draw(st.binary(max_size=60)),
                    "pos": draw(st.integers(0, 10 ** 6)), "seed": draw(st.binary(min_size=8, max_size=8)), "s_len": draw(st.sampled_from([56, 57, 57, 58, 58, 59])),
                    "cand": draw(st.sampled_from(["der-longform", "der-longform", "der-longform", "genuine", "der-nonminimal-len", "der-trailing", "flip"]))}
        return {"kind": kind, "hash": h, "mode": "fips-186-3", "encoding": draw(st.sampled_from(["binary", "der", "der", "der"])),
                "msg": draw(st.binary(max_size=60)), "pos": draw(st.integers(0, 10 ** 6)), "seed": draw(st.binary(min_size=8, max_size=8)),
                "cand": draw(st.sampled_from(["genuine", "der-longform", "der-longform", "der-longform", "der-nonminimal-len", "der-leading-zero", "der-trailing",
                                              "der-indefinite", "flip", "s-negated", "extend", "other-msg"])),
                "s_len": draw(st.one_of(st.integers(1, 66), st.sampled_from([55, 56, 57, 58])))}
    return {"kind": kind, "hash": h, "mode": draw(st.sampled_from(["fips-186-3", "deterministic-rfc6979"])), "encoding": draw(st.sampled_from(["binary", "der"])),
            "msg": draw(st.binary(max_size=60)), "cand": draw(st.sampled_from(DSS_CANDS)), "pos": draw(st.integers(0, 10 ** 6)),
            "seed": draw(st.binary(min_size=8, max_size=8)),
            # s_len > 0 (branch above): a signature with an s of chosen byte length, valid for a key derived from it (see run_dss); the DER body then
            # takes lengths that sign() never produces, among them 127/128 where the length octets change form (P-521: len(s) = 56..58)
            "s_len": 0}


def ref_dss_verify(desc, digest, r, s):
    if desc["type"] == "dsa":
        return ec.dsa_verify(desc["p"], desc["q"], desc["g"], desc["y"], digest, r, s)
    return ec.ecdsa_verify(desc["curve"], desc["Q"], digest, r, s)


def parse_sig(enc_, data, order_bytes):
    """Reference decoding of a DSS signature: (r, s) or None."""
    if enc_ == "binary":
        if len(data) != 2 * order_bytes:
            return None
        return int.from_bytes(data[:order_bytes], "big"), int.from_bytes(data[order_bytes:], "big")
    try:
        node = der.parse(data)
    except der.DerError:
        return None
    if not node.is_universal(16) or node.children is None or len(node.children) != 2:
        return None
    try:
        if not all(ch.is_universal(2) for ch in node.children):
            return None
        return node.children[0].as_int(), node.children[1].as_int()
    except der.DerError:
        return None


def run_dss(case, rec):
    from Crypto.Signature import DSS
    kind = tuple(case["kind"]) if isinstance(case["kind"], list) else case["kind"]
    kobj, desc = dss_key(kind)
    q = desc["order"]
    ob = (q.bit_length() + 7) // 8
    hname, msg, mode, enc_, cand = case["hash"], case["msg"], case["mode"], case["encoding"], case["cand"]
    hf = oracles.HASHES[hname][0]
    digest = hf(msg)
    info = {"kind": str(kind), "hash": hname, "mode": mode, "encoding": enc_, "cand": cand}
    kw = {"randfunc": Tape(case["seed"])} if mode == "fips-186-3" else {}
    signer = DSS.new(kobj, mode, encoding=enc_, **kw)
    h = oracles.lib_hash_new(hname, msg)
    k0, sig = libcall(signer.sign, h, allowed=(ValueError,), bucket="dss/sign")
    if k0 == "exc":
        raise Skip()      # hash refused for this key strength in FIPS mode
    sig = bytes(sig)
    if bytes(h.digest()) != digest:
        raise Violation("dss/sign-consumes-hash", "hash object changed by sign()", **info)
    rs = parse_sig(enc_, sig, ob)
    if rs is None:
        raise Violation("dss/signature-encoding", "sign() output is not a canonical %s encoding" % enc_, **info)
    if mode == "deterministic-rfc6979":
        ref_hash = hname.replace("_", "-")
        x = desc["x"] if desc["type"] == "dsa" else desc["d"]
        kk = ec.rfc6979_k(q, x, digest, ref_hash)
        if desc["type"] == "dsa":
            exp = ec.dsa_sign(desc["p"], q, desc["g"], x, kk, digest)
        else:
            exp = ec.ecdsa_sign(desc["curve"], x, kk, digest)
        if exp is not None and tuple(exp) != tuple(rs):
            raise Violation("dss/rfc6979-mismatch", "deterministic signature differs from RFC 6979", **info)
        if bytes(DSS.new(kobj, mode, encoding=enc_).sign(oracles.lib_hash_new(hname, msg))) != sig:
            raise Violation("dss/deterministic-not-repeatable", "second deterministic signature differs", **info)
    r, s = rs
    pos = case["pos"]
    crafted = False
    if case.get("s_len") and desc["type"] == "ec":
        # (r, s) with len(s) = s_len bytes (top bit clear), made valid by solving s = k^-1 (z + r d) for the private key d
        import hashlib
        from Crypto.PublicKey import ECC
        c_ = desc["curve"]
        sl = min(case["s_len"], ob)
        kk_ = 1 + int.from_bytes(hashlib.sha512(b"c04-craft" + case["seed"]).digest() * 2, "big") % (q - 1)
        s_ = (1 << (8 * sl - 2)) + int.from_bytes(hashlib.sha512(b"c04-s" + case["seed"]).digest() * 2, "big") % (1 << (8 * sl - 2))
        R_ = ec.ws_mul(c_, kk_, (c_["Gx"], c_["Gy"]))
        r_ = R_[0] % q
        d_ = (s_ * kk_ - ec.bits2int(digest, q.bit_length())) * pow(r_, -1, q) % q if r_ and s_ < q else 0
        if d_:
            kobj = ECC.construct(curve=kind, d=d_)
            desc = {"type": "ec", "curve": c_, "d": d_, "Q": ec.ws_mul(c_, d_, (c_["Gx"], c_["Gy"])), "order": q}
            r, s, crafted = r_, s_, True
            sig = r.to_bytes(ob, "big") + s.to_bytes(ob, "big") if enc_ == "binary" else der.enc_seq([der.enc_int(r), der.enc_int(s)])
            info["crafted_s_len"] = sl
            if not ec.ecdsa_verify(c_, desc["Q"], digest, r, s):
                raise Skip()      # cannot happen; guards the construction, not the library
            rec.event("dss:crafted:%s:der-body-%s" % (cand, "127-128" if enc_ == "der" and len(sig) - (2 if len(sig) < 130 else 3) in (127, 128) else "other"))
    vkey_obj, vdesc, vmsg = kobj, desc, msg
    genuine = cand == "genuine" and not crafted

    def encode(r_, s_):
        if enc_ == "binary":
            if r_ < 0 or s_ < 0 or r_.bit_length() > 8 * ob or s_.bit_length() > 8 * ob:
                return None
            return r_.to_bytes(ob, "big") + s_.to_bytes(ob, "big")
        return der.enc_seq([der.enc_int(r_), der.enc_int(s_)])
    c = None
    if cand == "genuine":
        c = sig
    elif cand == "flip":
        c = flip(sig, pos)
    elif cand == "trunc":
        c = sig[:-1]
    elif cand == "extend":
        c = sig + b"\0"
    elif cand == "insert-00-mid":
        # one zero byte at the r/s boundary (binary) / in the middle (der): the total length is off by one although both "halves" look plausible
        m_ = ob if enc_ == "binary" else len(sig) // 2
        c = sig[:m_] + b"\0" + sig[m_:]
    elif cand == "insert":
        i_ = pos % (len(sig) + 1)
        c = sig[:i_] + bytes([(pos // 7) % 256 if pos % 3 else 0]) + sig[i_:]
    elif cand == "delete":
        i_ = pos % len(sig)
        c = sig[:i_] + sig[i_ + 1:]
    elif cand == "prepend-00":
        c = b"\0" + sig
    elif cand == "widen-halves":
        c = (b"\0" + sig[:ob] + b"\0" + sig[ob:]) if enc_ == "binary" else None
    elif cand == "other-msg":
        c, vmsg = sig, msg + b"z"
    elif cand == "other-key":
        vkey_obj, vdesc = dss_key(kind, 1)
        c = sig
    elif cand in ("r=0", "s=0", "r=q", "s=q", "r=q+d", "s=q+d", "r=max", "s=max", "r+q"):
        delta = 1 + pos % 5
        mxv = (1 << (8 * ob)) - 1
        val = {"r=0": 0, "s=0": 0, "r=q": q, "s=q": q, "r=q+d": q + delta, "s=q+d": q + delta, "r=max": mxv, "s=max": mxv, "r+q": r + q}[cand]
        c = encode(val, s) if cand.startswith("r") else encode(r, val)
    elif cand == "s-negated":
        c = encode(r, q - s)
    elif cand.startswith("der-") and enc_ == "der":
        ri, si = der.enc_int(r), der.enc_int(s)
        if cand == "der-leading-zero":
            ri2 = b"\x02" + bytes([len(ri) - 2 + 1]) + b"\x00" + ri[2:]
            c = der.enc_seq([ri2, si])
        elif cand == "der-longform":
            body = ri + si
            c = b"\x30\x81" + bytes([len(body)]) + body if len(body) < 128 else b"\x30\x82\x00" + bytes([len(body)]) + body
        elif cand == "der-indefinite":
            c = b"\x30\x80" + ri + si + b"\x00\x00"
        elif cand == "der-trailing":
            c = der.enc_seq([ri, si]) + bytes([pos % 256]) * (1 + pos % 3)
        elif cand == "der-negative":
            neg = (-r if pos % 2 else r - (1 << (8 * ((r.bit_length() + 8) // 8))))
            c = der.enc_seq([der.enc_int(neg), si])
        elif cand == "der-wrong-tag":
            c = der.enc_seq([b"\x03" + ri[1:], si]) if pos % 2 else b"\x31" + der.enc_seq([ri, si])[1:]
        elif cand == "der-3-members":
            c = der.enc_seq([ri, si, der.enc_int(0)])
        elif cand == "der-nonminimal-len":
            ri2 = b"\x02\x81" + bytes([len(ri) - 2]) + ri[2:]
            c = der.enc_seq([ri2, si])
    elif cand == "binary-for-der" and enc_ == "der":
        c = r.to_bytes(ob, "big") + s.to_bytes(ob, "big")
    elif cand == "der-for-binary" and enc_ == "binary":
        c = der.enc_seq([der.enc_int(r), der.enc_int(s)])
    if c is None:
        raise Skip()
    prs = parse_sig(enc_, c, ob)
    ref_valid = prs is not None and ref_dss_verify(vdesc, hf(vmsg), prs[0], prs[1])
    hv = oracles.lib_hash_new(hname, vmsg)
    pub = vkey_obj.public_key() if hasattr(vkey_obj, "public_key") else vkey_obj.publickey()
    verifier = DSS.new(pub, "fips-186-3", encoding=enc_)
    reuse_first(verifier, "verify", pos, hname, 2 * ob)
    kind_, res = libcall(verifier.verify, hv, c, allowed=(ValueError,), bucket="dss/verify")
    check_verdict("dss", cand, ref_valid, kind_, res, rec, info, genuine)
    kind2, _ = libcall(verifier.verify, hv, c, allowed=(ValueError,), bucket="dss/verify")
    if kind2 != kind_ or bytes(hv.digest()) != hf(vmsg):
        raise Violation("dss/verify-not-repeatable", "second verify() differs or hash object changed", **info)
    rec.nt("dss", str(kind), hname, mode, enc_, cand, ref_valid)
    rec.event("dss:%s:%s" % (cand, "valid" if ref_valid else "invalid"))
    rec.sample(info)


# ------------------------------------------------------------------ EdDSA
ED_CANDS = ["genuine", "genuine", "flip", "trunc", "extend", "other-msg", "other-key", "other-ctx", "S+L", "S=L-identity-key", "R-noncanonical-y",
            "R-x0-signbit", "R-offcurve", "ph-vs-pure", "R-stray-bits", "A-x0-signbit", "S-high-bits"]


@st.composite
def strat_eddsa(draw, tier):
    return {"curve": draw(st.sampled_from(["ed25519", "ed448"])), "seed": draw(st.binary(min_size=8, max_size=8)), "msg": draw(st.binary(max_size=60)),
            "ph": draw(st.booleans()), "ctx": draw(st.one_of(st.none(), st.just(b""), st.binary(min_size=1, max_size=20), gen.data_of(st.sampled_from([254, 255])))),
            "cand": draw(st.sampled_from(ED_CANDS)), "pos": draw(st.integers(0, 10 ** 6))}


def run_eddsa(case, rec):
    from Crypto.Signature import eddsa
    from Crypto.PublicKey import ECC
    from Crypto.Hash import SHA512, SHAKE256
    curve, msg, ph, ctx, cand = case["curve"], case["msg"], case["ph"], case["ctx"], case["cand"]
    rc = keys.REFNAME[curve]
    C = ec.CURVES[rc]
    L = C["L"]
    blen = 32 if curve == "ed25519" else 57
    seed = keys.ecc_seed(curve, case["seed"])
    kobj = ECC.construct(curve=curve, seed=seed)
    # reference semantics of ctx: the library treats an absent or empty context on pure Ed25519 as plain Ed25519
    ref_ctx = ctx if ctx else None
    if curve == "ed25519" and (ph or ctx):
        ref_ctx = ctx or b""
    if curve == "ed448":
        ref_ctx = ctx or b""

    def mk_hash(m):
        if not ph:
            return m
        return SHA512.new(m) if curve == "ed25519" else SHAKE256.new(m)

    def ref_msg(m):
        return ec.eddsa_prehash(rc, m) if ph else m
    info = {"curve": curve, "ph": ph, "ctx": None if ctx is None else len(ctx), "cand": cand}
    signer = eddsa.new(kobj, "rfc8032", context=ctx)
    hobj = mk_hash(msg)
    sig = bytes(signer.sign(hobj))
    exp = ec.eddsa_sign(rc, seed, ref_msg(msg), ctx=ref_ctx, ph=ph)
    if sig != exp:
        raise Violation("eddsa/signature-not-rfc8032", "signature differs from RFC 8032 (%s%s%s)" % (curve, " ph" if ph else "", " ctx" if ctx else ""), **info)
    if ph:
        # inputs are not consumed: same object signs again identically, and its output is unchanged
        if bytes(signer.sign(hobj)) != sig:
            raise Violation("eddsa/sign-consumes-hash", "second sign() with the same hash/XOF object differs", **info)
        if curve == "ed25519":
            if bytes(hobj.digest()) != hashlib.sha512(msg).digest():
                raise Violation("eddsa/hash-object-changed", "SHA-512 object changed by sign()", **info)
        else:
            if bytes(hobj.copy().read(64)) != hashlib.shake_256(msg).digest(64):
                raise Violation("eddsa/xof-object-changed", "SHAKE256 object was squeezed by sign()", **info)
    pk = ec.eddsa_pubkey(rc, seed)
    if bytes(kobj.public_key().export_key(format="raw")) != pk:
        raise Violation("eddsa/public-key", "public key differs from RFC 8032", **info)
    vpk, vmsg, vctx, vph = pk, msg, ctx, ph
    R, S = sig[:blen], int.from_bytes(sig[blen:], "little")
    pos = case["pos"]
    genuine = cand == "genuine"
    p = C["p"]
    c = None
    if cand == "genuine":
        c = sig
    elif cand == "flip":
        c = flip(sig, pos)
    elif cand == "trunc":
        c = sig[:-1]
    elif cand == "extend":
        c = sig + b"\0"
    elif cand == "other-msg":
        c, vmsg = sig, msg + b"q"
    elif cand == "other-key":
        c, vpk = sig, ec.eddsa_pubkey(rc, keys.ecc_seed(curve, case["seed"] + b"2"))
    elif cand == "other-ctx":
        c, vctx = sig, ((ctx or b"") + b"c") if len(ctx or b"") < 255 else (ctx[:-1] + bytes([ctx[-1] ^ 1]))
    elif cand == "ph-vs-pure":
        c, vph = sig, not ph
    elif cand == "S+L":
        v = S + L
        if v.bit_length() > 8 * blen:
            raise Skip()
        c = R + v.to_bytes(blen, "little")
    elif cand == "S-high-bits":
        # Ed448: S occupies 57 bytes; set a bit above the order's size
        v = S | (1 << (8 * blen - 1 - pos % 6))
        c = R + v.to_bytes(blen, "little")
    elif cand == "S=L-identity-key":
        ident = ec.ed_encode(C, (0, 1))
        vpk = ident
        c = ident + L.to_bytes(blen, "little")
    elif cand in ("R-noncanonical-y", "R-x0-signbit", "R-offcurve", "R-stray-bits", "A-x0-signbit"):
        # signatures whose verification equation can hold only through a lax decoder: R = identity in a non-canonical
        # encoding, S = k*a mod L with k computed over the bytes actually sent
        a, _ = ec.eddsa_expand_seed(rc, seed)
        if cand == "R-x0-signbit":
            Renc = bytearray(ec.ed_encode(C, (0, 1)))
            Renc[-1] |= 0x80
        elif cand == "R-noncanonical-y":
            # y = 1 + p does not fit for Ed25519 (255 bits) unless p + 1 < 2^255: it does (p = 2^255-19); Ed448: p+1 < 2^448? no -> use stray-bits instead
            yv = 1 + p
            if yv.bit_length() > (255 if curve == "ed25519" else 455):
                raise Skip()
            Renc = bytearray(yv.to_bytes(blen, "little"))
        elif cand == "R-stray-bits":
            if curve != "ed448":
                raise Skip()
            Renc = bytearray(ec.ed_encode(C, (0, 1)))
            Renc[-1] |= 1 << (pos % 7)
        elif cand == "R-offcurve":
            Renc = bytearray(R)
            for t in range(1, 200):
                cand_y = (int.from_bytes(R, "little") + t) % (1 << (8 * blen - 1))
                b = cand_y.to_bytes(blen, "little")
                if ec.ed_decode(C, b) is None:
                    Renc = bytearray(b)
                    break
        else:   # A-x0-signbit: public key = identity with the sign bit set
            A = bytearray(ec.ed_encode(C, (0, 1)))
            A[-1] |= 0x80
            vpk = bytes(A)
            Renc = bytearray(ec.ed_encode(C, (0, 1)))
        Renc = bytes(Renc)
        # k over the transmitted bytes
        dom = b""
        if curve == "ed25519":
            if ref_ctx is not None:
                dom = b"SigEd25519 no Ed25519 collisions" + bytes([int(ph), len(ref_ctx)]) + ref_ctx
            kh = hashlib.sha512(dom + Renc + vpk + ref_msg(msg)).digest()
        else:
            dom = b"SigEd448" + bytes([int(ph), len(ref_ctx or b"")]) + (ref_ctx or b"")
            kh = hashlib.shake_256(dom + Renc + vpk + ref_msg(msg)).digest(114)
        kk = int.from_bytes(kh, "little") % L
        if cand == "A-x0-signbit":
            Sv = 0          # A = identity, R = identity: [0]B = O
        elif cand == "R-offcurve":
            Sv = S
        else:
            Sv = (kk * a) % L
        c = Renc + Sv.to_bytes(blen, "little")
    if c is None:
        raise Skip()
    v_ref_ctx = vctx if vctx else None
    if curve == "ed25519" and (vph or vctx):
        v_ref_ctx = vctx or b""
    if curve == "ed448":
        v_ref_ctx = vctx or b""
    vm = ec.eddsa_prehash(rc, vmsg) if vph else vmsg
    ref_valid = ec.eddsa_verify(rc, vpk, vm, c, ctx=v_ref_ctx, ph=vph)
    kind0, vk = libcall(eddsa.import_public_key, vpk, allowed=(ValueError,), bucket="eddsa/import_public_key")
    if kind0 == "exc":
        # the key itself is refused: nothing can be accepted under it
        if ec.ed_decode(C, vpk) is not None:
            rec.event("completeness_gap:eddsa:public-key-refused")
        rec.event("eddsa:%s:key-refused" % cand)
        return
    verifier = eddsa.new(vk, "rfc8032", context=vctx)
    if vph:
        hv = SHA512.new(vmsg) if curve == "ed25519" else SHAKE256.new(vmsg)
    else:
        hv = vmsg
    kind_, res = libcall(verifier.verify, hv, c, allowed=(ValueError,), bucket="eddsa/verify")
    check_verdict("eddsa", cand, ref_valid, kind_, res, rec, info, genuine)
    kind2, _ = libcall(verifier.verify, hv, c, allowed=(ValueError,), bucket="eddsa/verify")
    if kind2 != kind_:
        raise Violation("eddsa/verify-not-repeatable", "second verify() with the same hash/XOF object gave another outcome", **info)
    rec.nt("eddsa", curve, ph, ctx is None, len(ctx or b"") in (0, 255), cand, ref_valid)
    rec.event("eddsa:%s:%s" % (cand, "valid" if ref_valid else "invalid"))
    rec.sample(info)


CHECKS = [
    Check("pkcs1v15", run=run_v15, strategy=strat_v15, examples=(3000, 80000), shards=(16, 16),
          rule="RSASSA-PKCS1-v1_5: byte-exact signatures; candidates from crafted EMs and mutations judged by the RFC 8017 reference"),
    Check("pss", run=run_pss, strategy=strat_pss, examples=(3000, 80000), shards=(16, 16),
          rule="RSASSA-PSS: signature == reference encoding with the same salt; crafted EMs judged by EMSA-PSS-VERIFY"),
    Check("dss", run=run_dss, strategy=strat_dss, examples=(3000, 80000), shards=(16, 16),
          rule="DSA/ECDSA: RFC 6979 byte-exact; out-of-range r/s, (r, q-s), malformed DER, cross-encoding candidates, and ECDSA pairs crafted for a derived key (DER body lengths up to the 127/128 boundary) judged by FIPS 186-4 reference"),
    Check("eddsa", run=run_eddsa, strategy=strat_eddsa, examples=(1600, 40000), shards=(16, 16),
          rule="Ed25519/Ed448 pure/ph/ctx: byte-exact; S>=L, non-canonical R/A, off-curve R, context/prehash confusion judged by RFC 8032 reference"),
]
