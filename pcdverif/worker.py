"""Runs one (check, shard) of a property in a fresh process with the overlay first on
sys.path.  Writes a JSON result file; exit code 0 always unless the harness itself
breaks (then 2)."""
import argparse
import hashlib
import importlib
import json
import os
import sys
import time
import traceback

from .core import (Violation, HarnessError, Skip, Recorder, enc, dec, norm, short,
                   load_known, known_match, in_library, where, VERIF)


def derive_seed(seed, pid, check, shard):
    h = hashlib.sha256(("%d/%s/%s/%d" % (seed, pid, check, shard)).encode()).digest()
    return int.from_bytes(h[:4], "big")


def load_checks(pid):
    mod = importlib.import_module("pcdverif.props." + pid.lower())
    return mod, {c.name: c for c in mod.CHECKS}


class Runner:
    def __init__(self, pid, check, tier, seed, shard, nshards):
        self.pid, self.check, self.tier, self.seed = pid, check, tier, seed
        self.shard, self.nshards = shard, nshards
        self.rec = Recorder()
        self.known = load_known()
        self.fail = None           # (case, Violation) most recent failing
        self.first_fail_t = None
        self.shrink_budget = 45.0 if tier == "quick" else 240.0
        self.budget_hit = False
        self.journal = os.environ.get("PCDVERIF_JOURNAL")
        self.current = None

    def eval_case(self, case, counting=True):
        """Evaluate one case. Returns None or raises Violation (unknown ones only)."""
        if self.first_fail_t is not None and time.time() - self.first_fail_t > self.shrink_budget:
            self.budget_hit = True
            return
        case = norm(case)
        if counting:
            self.rec.evaluations += 1
        self.current = (time.time(), case)      # read by the watchdog thread
        if self.journal:
            # crash journal (sanitizer builds): the case is on disk before it runs
            with open(self.journal, "w") as jf:
                json.dump({"case": enc(case), "n": self.rec.evaluations}, jf)
                jf.flush()
                os.fsync(jf.fileno())
        try:
            try:
                try:
                    self.check.run(case, self.rec)
                finally:
                    self.current = None
            except (Violation, HarnessError, Skip):
                raise
            except RecursionError:
                raise
            except Exception as e:
                if in_library(e):
                    raise Violation("exception/%s@%s" % (type(e).__name__, where(e)),
                                    "unexpected %s from library: %s" % (type(e).__name__, str(e)[:300]))
                raise HarnessError("check code raised %s: %s\n%s" % (
                    type(e).__name__, e, traceback.format_exc()[-3000:]))
        except Skip:
            self.rec.skipped += 1
            return
        except Violation as v:
            k = known_match(self.known, self.pid, self.check.name, v.bucket)
            if k is not None:
                self.rec.known(v.bucket)
                return
            self.fail = (case, v)
            if self.first_fail_t is None:
                self.first_fail_t = time.time()
            raise

    def run_hyp(self):
        import hypothesis
        from hypothesis import given, settings, HealthCheck, Phase, seed as hseed
        n_total = self.check.examples[self.tier]
        n = max(1, n_total // self.nshards)
        strat = self.check.strategy(self.tier)
        sd = derive_seed(self.seed, self.pid, self.check.name, self.shard)

        @hseed(sd)
        @settings(max_examples=n, database=None, deadline=None, report_multiple_bugs=False,
                  derandomize=False, suppress_health_check=list(HealthCheck),
                  phases=[Phase.generate, Phase.shrink], print_blob=False,
                  verbosity=hypothesis.Verbosity.quiet)
        @given(strat)
        def test(case):
            self.eval_case(case)

        try:
            test()
        except Violation:
            pass
        except HarnessError:
            raise
        except BaseException as e:
            if self.fail is None:
                # hypothesis-internal failure (Flaky etc.) without a recorded violation
                if type(e).__name__ in ("Flaky", "FlakyFailure", "FlakyStrategyDefinition") :
                    raise HarnessError("hypothesis reported flakiness without a violation: %s" % e)
                if isinstance(e, (KeyboardInterrupt, SystemExit)):
                    raise
                raise HarnessError("unexpected %s: %s\n%s" % (type(e).__name__, e, traceback.format_exc()[-3000:]))

    def run_enum(self):
        for case in self.check.cases(self.tier, self.shard, self.nshards):
            try:
                self.eval_case(case)
            except Violation:
                break

    def run_custom(self):
        ctx = type("Ctx", (), {})()
        ctx.tier, ctx.seed, ctx.shard, ctx.nshards = self.tier, self.seed, self.shard, self.nshards
        ctx.rec = self.rec
        ctx.eval_case = self.eval_case
        ctx.derived_seed = derive_seed(self.seed, self.pid, self.check.name, self.shard)
        try:
            self.check.custom(ctx)
        except Violation as v:
            if self.fail is None:
                k = known_match(self.known, self.pid, self.check.name, v.bucket)
                if k is not None:
                    self.rec.known(v.bucket)
                else:
                    self.fail = (v.details.get("case", {"note": "custom check"}), v)

    # ------------------------------------------------------------ coverage-guided campaign (atheris child)
    def _bucket_of(self, raw):
        """Bucket of the violation that `raw` triggers through decode+run (outside the fuzzer), or None."""
        case = self.check.decode(bytes(raw))
        if case is None:
            return None, None, None
        case = norm(case)
        try:
            self.check.run(case, Recorder())
        except Skip:
            return None, None, None
        except Violation as v:
            return v.bucket, case, v
        except HarnessError:
            return None, None, None
        except Exception as e:
            if in_library(e):
                v = Violation("exception/%s@%s" % (type(e).__name__, where(e)), "unexpected %s from library: %s" % (type(e).__name__, str(e)[:300]))
                return v.bucket, case, v
        return None, None, None

    def _ddmin(self, raw, bucket, budget):
        """Delta-debugging over the fuzzer's bytes, keeping the violation bucket."""
        t0 = time.time()
        raw = bytes(raw)
        n = 2
        while len(raw) >= 2 and time.time() - t0 < budget:
            chunk = max(1, len(raw) // n)
            reduced = False
            for i in range(0, len(raw), chunk):
                cand = raw[:i] + raw[i + chunk:]
                if cand and self._bucket_of(cand)[0] == bucket:
                    raw, n, reduced = cand, max(n - 1, 2), True
                    break
                if time.time() - t0 > budget:
                    break
            if not reduced:
                if chunk == 1:
                    break
                n = min(len(raw), n * 2)
        # canonicalise bytes towards zero where the bucket survives
        b = bytearray(raw)
        for i in range(1, len(b)):
            if time.time() - t0 > budget:
                break
            if b[i]:
                keep = b[i]
                b[i] = 0
                if self._bucket_of(bytes(b))[0] != bucket:
                    b[i] = keep
        return bytes(b)

    def run_fuzz(self, outpath):
        import shutil
        import subprocess
        import tempfile
        n_total = self.check.examples[self.tier]
        runs = max(1, n_total // self.nshards)
        sd = derive_seed(self.seed, self.pid, self.check.name, self.shard)
        seeded = (self.shard % 2 == 1) and self.check.corpus is not None
        work = tempfile.mkdtemp(prefix="fuzz-%s-%d-" % (self.check.name, self.shard), dir=os.path.dirname(os.path.abspath(outpath)))
        try:
            corpus = os.path.join(work, "corpus")
            os.makedirs(corpus)
            nseed = 0
            if seeded:
                for i, blob in enumerate(self.check.corpus()):
                    with open(os.path.join(corpus, "seed-%04d" % i), "wb") as f:
                        f.write(blob)
                    nseed += 1
            childout = os.path.join(work, "child.json")
            cmd = [sys.executable, "-m", "pcdverif.fuzzchild", "--prop", self.pid, "--check", self.check.name, "--runs", str(runs),
                   "--seed", str(sd), "--corpus", corpus, "--out", childout]
            p = subprocess.run(cmd, stdout=subprocess.PIPE, stderr=subprocess.STDOUT, cwd=VERIF)
            log = p.stdout.decode(errors="replace")
            if not os.path.exists(childout):
                raise HarnessError("fuzz child exited %d without a result:\n%s" % (p.returncode, log[-3000:]))
            with open(childout) as f:
                res = json.load(f)
            r = res["rec"]
            self.rec.evaluations += r["evaluations"]
            for k, v in r["events"].items():
                self.rec.event(k, v)
            self.rec.nontrivial.update(r["nontrivial"])
            self.rec.nontrivial_cases += r["nontrivial_cases"]
            for smp in r["samples"]:
                if len(self.rec.samples) < self.rec.MAX_SAMPLES:
                    self.rec.samples.append(smp)
            for k, v in r["excluded_known"].items():
                self.rec.excluded_known[k] = self.rec.excluded_known.get(k, 0) + v
            self.rec.skipped += r["skipped"]
            for k, v in r["notes"].items():
                self.rec.note(k, v)
            # libFuzzer's own statistics: last "cov: N ft: M corp: K" line
            import re
            m = None
            for m in re.finditer(r"cov: (\d+) ft: (\d+) corp: (\d+)", log):
                pass
            mode = "seeded" if seeded else "empty"
            self.rec.event("fuzz:campaign:%s-corpus" % mode)
            self.rec.event("fuzz:executions", res.get("execs", 0))
            if m:
                self.rec.note("fuzz_%s_shard%d" % (mode, self.shard), {"cov_edges": int(m.group(1)), "features": int(m.group(2)), "corpus": int(m.group(3)),
                                                                      "seed_inputs": nseed, "execs": res.get("execs", 0)})
            if res["status"] == "harness_error":
                raise HarnessError("fuzz child: %s" % res.get("error"))
            if res["status"] == "violation":
                raw = bytes.fromhex(res["raw"])
                bucket, case, v = self._bucket_of(raw)
                if bucket is None:
                    # does not reproduce outside the instrumented child: inconclusive, never an alarm
                    self.rec.event("fuzz:unreproduced:" + res["violation"]["bucket"][:80])
                    return
                small = self._ddmin(raw, bucket, self.shrink_budget)
                b2, case2, v2 = self._bucket_of(small)
                if b2 == bucket:
                    case, v = case2, v2
                self.fail = (case, v)
        finally:
            shutil.rmtree(work, ignore_errors=True)

    def confirm(self):
        """Re-run the minimal failing case outside Hypothesis."""
        if self.fail is None or self.check.run is None:
            return True
        case, v = self.fail
        try:
            self.check.run(norm(case), Recorder())
        except Violation:
            return True
        except Exception:
            return True
        return False


def main(argv=None):
    ap = argparse.ArgumentParser()
    ap.add_argument("--prop", required=True)
    ap.add_argument("--check", required=True)
    ap.add_argument("--tier", default="quick")
    ap.add_argument("--seed", type=int, default=1)
    ap.add_argument("--shard", type=int, default=0)
    ap.add_argument("--nshards", type=int, default=1)
    ap.add_argument("--out", required=True)
    ap.add_argument("--replay", default=None)
    a = ap.parse_args(argv)

    try:
        sys.set_int_max_str_digits(0)
    except AttributeError:
        pass
    t0 = time.time()
    res = {"prop": a.prop, "check": a.check, "shard": a.shard, "status": "ok"}
    try:
        if os.environ.get("PCDVERIF_FORCE_NATIVE"):
            # make the custom C back-end unimportable so that Numbers.Integer is IntegerNative
            os.environ["PYCRYPTODOME_DISABLE_GMP"] = "1"
            sys.modules["Crypto.Math._IntegerCustom"] = None
        ov = os.environ.get("PCDVERIF_OVERLAY")
        if ov:
            import Crypto
            if not os.path.abspath(Crypto.__file__).startswith(os.path.abspath(ov)):
                raise HarnessError("Crypto imported from %s, not from overlay %s" % (Crypto.__file__, ov))
        mod, checks = load_checks(a.prop)
        if a.check not in checks:
            raise HarnessError("no check %s in %s" % (a.check, a.prop))
        chk = checks[a.check]
        r = Runner(a.prop, chk, a.tier, a.seed, a.shard, a.nshards)
        # watchdog: a single case that does not come back (a library that loops forever) must not hold the whole run for the worker's
        # hour-long limit. A time limit is never a verdict: the shard ends as *inconclusive* (harness error, exit 2) and names the case.
        limit = float(os.environ.get("PCDVERIF_CASE_LIMIT", "1200" if a.tier == "quick" else "3600"))

        def watchdog():
            while True:
                time.sleep(5)
                cur = r.current
                if cur is not None and time.time() - cur[0] > limit:
                    out = {"prop": a.prop, "check": a.check, "shard": a.shard, "status": "harness_error", "rec": r.rec.dump(), "rule": chk.rule,
                           "exhaustive": False, "wall_s": time.time() - t0,
                           "error": "inconclusive: one case did not terminate within %d s (time limits are not verdicts): %s" % (limit, json.dumps(short(enc(cur[1])))[:1500])}
                    with open(a.out + ".tmp", "w") as f:
                        json.dump(out, f)
                    os.replace(a.out + ".tmp", a.out)
                    os._exit(2)
        import threading
        threading.Thread(target=watchdog, daemon=True).start()
        if a.replay:
            with open(a.replay) as f:
                rp = json.load(f)
            try:
                r.eval_case(dec(rp["case"]))
            except Violation:
                pass
        elif chk.kind == "hyp":
            r.run_hyp()
        elif chk.kind == "enum":
            r.run_enum()
        elif chk.kind == "fuzz":
            r.run_fuzz(a.out)
        else:
            r.run_custom()
        res["rec"] = r.rec.dump()
        res["rule"] = chk.rule
        res["exhaustive"] = bool(chk.exhaustive)
        if r.fail is not None:
            case, v = r.fail
            res["status"] = "violation"
            res["violation"] = {"bucket": v.bucket, "message": v.message,
                                "details": short(enc({k: x for k, x in v.details.items() if k != "case"})) if v.details else {},
                                "case": enc(case), "confirmed": r.confirm(),
                                "shrink_budget_hit": r.budget_hit}
    except HarnessError as e:
        res["status"] = "harness_error"
        res["error"] = str(e)
    except BaseException as e:
        res["status"] = "harness_error"
        res["error"] = "%s: %s\n%s" % (type(e).__name__, e, traceback.format_exc()[-4000:])
    res["wall_s"] = time.time() - t0
    tmp = a.out + ".tmp"
    with open(tmp, "w") as f:
        json.dump(res, f)
    os.replace(tmp, a.out)
    return 0 if res["status"] != "harness_error" else 2


if __name__ == "__main__":
    sys.exit(main())
