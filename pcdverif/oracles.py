"""Glue between property modules and the independent references (no Crypto import here)."""
import hashlib
import hmac as _hmac

from .refs import modes, keccak, oldhash, stream, libcrypto as lc
from .refs import aes as raes
from .core import HarnessError

# ------------------------------------------------------------------ block ciphers
LC_NAME = {"DES": "DES", "DES3": "DES3", "Blowfish": "BF", "CAST": "CAST5", "ARC2": "RC2", "AES": "AES"}
BLOCK = {"AES": 16, "DES": 8, "DES3": 8, "Blowfish": 8, "CAST": 8, "ARC2": 8}
KEYLENS = {
    "AES": [16, 24, 32], "DES": [8], "DES3": [16, 24], "Blowfish": list(range(4, 57)),
    "CAST": list(range(5, 17)), "ARC2": list(range(5, 129)),
}


def bc(cipher, key, effective_keylen=None, pure_aes=True):
    """Keyed reference block primitive (modes.BC)."""
    key = bytes(key)
    if cipher == "AES" and pure_aes:
        return modes.aes_bc(key)
    enc, dec = lc.make_ecb(LC_NAME[cipher], key, rc2_effective_bits=effective_keylen)
    return modes.BC(BLOCK[cipher], lambda b: enc(bytes(b)), lambda b: dec(bytes(b)))


# ------------------------------------------------------------------ hashes
def _hl(name):
    return lambda d: hashlib.new(name, d).digest()


# name -> (ref function, digest size, HMAC block size, hashlib name or None)
HASHES = {
    "MD2": (oldhash.md2, 16, 16, None),
    "MD4": (oldhash.md4, 16, 64, None),
    "MD5": (_hl("md5"), 16, 64, "md5"),
    "RIPEMD160": (_hl("ripemd160"), 20, 64, "ripemd160"),
    "SHA1": (_hl("sha1"), 20, 64, "sha1"),
    "SHA224": (_hl("sha224"), 28, 64, "sha224"),
    "SHA256": (_hl("sha256"), 32, 64, "sha256"),
    "SHA384": (_hl("sha384"), 48, 128, "sha384"),
    "SHA512": (_hl("sha512"), 64, 128, "sha512"),
    "SHA512-224": (_hl("sha512_224"), 28, 128, "sha512_224"),
    "SHA512-256": (_hl("sha512_256"), 32, 128, "sha512_256"),
    "SHA3_224": (_hl("sha3_224"), 28, 144, "sha3_224"),
    "SHA3_256": (_hl("sha3_256"), 32, 136, "sha3_256"),
    "SHA3_384": (_hl("sha3_384"), 48, 104, "sha3_384"),
    "SHA3_512": (_hl("sha3_512"), 64, 72, "sha3_512"),
}
OIDS = {
    "MD2": "1.2.840.113549.2.2", "MD4": "1.2.840.113549.2.4", "MD5": "1.2.840.113549.2.5",
    "RIPEMD160": "1.3.36.3.2.1", "SHA1": "1.3.14.3.2.26",
    "SHA224": "2.16.840.1.101.3.4.2.4", "SHA256": "2.16.840.1.101.3.4.2.1", "SHA384": "2.16.840.1.101.3.4.2.2",
    "SHA512": "2.16.840.1.101.3.4.2.3", "SHA512-224": "2.16.840.1.101.3.4.2.5", "SHA512-256": "2.16.840.1.101.3.4.2.6",
    "SHA3_224": "2.16.840.1.101.3.4.2.7", "SHA3_256": "2.16.840.1.101.3.4.2.8", "SHA3_384": "2.16.840.1.101.3.4.2.9",
    "SHA3_512": "2.16.840.1.101.3.4.2.10",
}


def lib_hash_new(name, data=None):
    """Create the library's hash object for a table name (imports Crypto lazily)."""
    import importlib
    if name.startswith("SHA512-"):
        from Crypto.Hash import SHA512
        return SHA512.new(data=data, truncate=name.split("-")[1])
    mod = importlib.import_module("Crypto.Hash." + name)
    return mod.new(data=data) if data is not None else mod.new()


def lib_hash_module(name):
    import importlib
    if name.startswith("SHA512-"):
        from Crypto.Hash import SHA512
        return SHA512.new(truncate=name.split("-")[1])     # objects with .new() work as digestmod
    return importlib.import_module("Crypto.Hash." + name)


def ref_hash(name, data):
    data = bytes(data)
    r = HASHES[name][0](data)
    if name in ("SHA3_224", "SHA3_256", "SHA3_384", "SHA3_512") and len(data) < 400:
        # second oracle: pure Keccak reference
        r2 = keccak.sha3(int(name.split("_")[1]), data)
        if r2 != r:
            raise HarnessError("hashlib and the Keccak reference disagree on %s" % name)
    return r


def ref_hmac(name, key, msg):
    fn, ds, bs, hl = HASHES[name]
    key, msg = bytes(key), bytes(msg)
    if len(key) > bs:
        key = fn(key)
    key = key.ljust(bs, b"\0")
    inner = fn(bytes(k ^ 0x36 for k in key) + msg)
    out = fn(bytes(k ^ 0x5C for k in key) + inner)
    if hl is not None:
        out2 = _hmac.new(bytes(key), msg, hl).digest()
        if out2 != out:
            raise HarnessError("stdlib hmac and textbook HMAC disagree for %s" % name)
    return out
