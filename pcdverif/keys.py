"""Deterministic key material built by the harness itself (sympy + Python ints), cached on disk.
No library code is used to create the numbers; library objects are built from them with construct()."""
import fcntl
import hashlib
import json
import math
import os

from .core import VERIF, HarnessError

CACHE = os.path.join(VERIF, ".cache")


def _prime_from(seed, bits, top2=True):
    import sympy
    x = int.from_bytes(hashlib.shake_128(seed).digest((bits + 7) // 8), "big")
    x &= (1 << bits) - 1
    x |= (1 << (bits - 1)) | 1
    if top2:
        x |= 1 << (bits - 2)
    p = int(sympy.nextprime(x))
    if p.bit_length() != bits:
        return _prime_from(seed + b"+", bits, top2)
    return p


def _cached(name, builder):
    os.makedirs(CACHE, exist_ok=True)
    path = os.path.join(CACHE, "keys-%s.json" % name)
    if os.path.exists(path):
        try:
            with open(path) as f:
                return json.load(f)
        except ValueError:
            pass
    lock = open(os.path.join(CACHE, ".keys.lock"), "w")
    fcntl.flock(lock, fcntl.LOCK_EX)
    try:
        if os.path.exists(path):
            with open(path) as f:
                return json.load(f)
        val = builder()
        tmp = path + ".%d.tmp" % os.getpid()
        with open(tmp, "w") as f:
            json.dump(val, f)
        os.replace(tmp, path)
        return val
    finally:
        fcntl.flock(lock, fcntl.LOCK_UN)
        lock.close()


_MEM = {}


def rsa_numbers(bits=1024, idx=0, e=65537):
    """(n, e, d, p, q) with n of exactly `bits` bits."""
    key = ("rsa", bits, idx, e)
    if key in _MEM:
        return _MEM[key]

    def build():
        i = 0
        while True:
            pb = (bits + 1) // 2
            qb = bits - pb
            p = _prime_from(b"rsa-p-%d-%d-%d-%d" % (bits, idx, e, i), pb)
            q = _prime_from(b"rsa-q-%d-%d-%d-%d" % (bits, idx, e, i), qb)
            n = p * q
            if n.bit_length() == bits and p != q and math.gcd(e, (p - 1) * (q - 1)) == 1:
                d = pow(e, -1, math.lcm(p - 1, q - 1))
                return [n, e, d, p, q]
            i += 1
    v = tuple(_cached("rsa-%d-%d-%d" % (bits, idx, e), build))
    _MEM[key] = v
    return v


def rsa_numbers_top(bits=1024, top=0x80, e=65537, idx=0):
    """(n, e, d, p, q) with n of exactly `bits` bits (a multiple of 8) whose most significant byte is `top` (0x80..0xFF)."""
    assert bits % 8 == 0 and 0x80 <= top <= 0xFF
    key = ("rsa-top", bits, top, e, idx)
    if key in _MEM:
        return _MEM[key]

    def build():
        import sympy
        i = 0
        while True:
            pb = (bits + 1) // 2
            p = _prime_from(b"rsa-top-p-%d-%d-%d-%d-%d" % (bits, top, e, idx, i), pb, top2=False)
            target = (top << (bits - 8)) + (1 << (bits - 12)) + int.from_bytes(hashlib.sha256(b"rsa-top-%d-%d" % (idx, i)).digest()[:8], "big")
            q = int(sympy.nextprime(target // p))
            n = p * q
            if n.bit_length() == bits and (n >> (bits - 8)) == top and p != q and math.gcd(e, (p - 1) * (q - 1)) == 1:
                return [n, e, pow(e, -1, math.lcm(p - 1, q - 1)), p, q]
            i += 1
    v = tuple(_cached("rsa-top-%d-%d-%d-%d" % (bits, top, e, idx), build))
    _MEM[key] = v
    return v


def dsa_single_fault_domain(which):
    """(p, q, g) of FIPS size (1024, 160) violating exactly one domain condition while all the others hold:
    'p-composite-only': p = p1*m composite, q prime, q | p-1, 1 < g < p, g^q = 1 mod p (g has order q modulo p1 and is 1 modulo m);
    'q-composite-only': q = q1*q2 composite, p prime, q | p-1, g of order q1 (so g^q = 1 mod p)."""
    def build():
        import sympy
        if which == "p-composite-only":
            q = dsa_numbers()[3]
            k = ((1 << 511) // q) + 12345
            while True:
                p1 = k * q + 1
                if p1.bit_length() == 512 and sympy.isprime(p1):
                    break
                k += 1
            j = ((1 << 511) // (2 * q)) + 777
            while True:
                m = j * 2 * q + 1
                p = p1 * m
                if p.bit_length() >= 1024:
                    break
                j += 1 << 340
            if p.bit_length() != 1024 or (p - 1) % q:
                raise HarnessError("composite DSA modulus construction failed")
            h = 2
            while True:
                g1 = pow(h, (p1 - 1) // q, p1)
                if g1 != 1:
                    break
                h += 1
            g = (1 + m * (((g1 - 1) * pow(m, -1, p1)) % p1)) % p
            if not (1 < g < p and pow(g, q, p) == 1) or sympy.isprime(p):
                raise HarnessError("composite DSA modulus construction failed (g)")
            return [p, q, g]
        q1 = _prime_from(b"dsa-q1", 80, top2=True)
        q2 = _prime_from(b"dsa-q2", 80, top2=True)
        q = q1 * q2
        k = ((1 << 1023) // q) + 99
        while True:
            p = k * q + 1
            if p.bit_length() == 1024 and sympy.isprime(p):
                break
            k += 1
        h = 2
        while True:
            g = pow(h, (p - 1) // q1, p)
            if g > 1:
                break
            h += 1
        if q.bit_length() != 160 or pow(g, q, p) != 1:
            raise HarnessError("composite DSA subgroup order construction failed")
        return [p, q, g]
    return tuple(_cached("dsa-fault-%s" % which, build))


def dsa_numbers(L=1024, N=160, idx=0):
    """(y, g, p, q, x) for a FIPS (L, N) pair."""
    key = ("dsa", L, N, idx)
    if key in _MEM:
        return _MEM[key]

    def build():
        import sympy
        q = _prime_from(b"dsa-q-%d-%d-%d" % (L, N, idx), N, top2=False)
        k = ((1 << (L - 1)) // q) + 1 + int.from_bytes(hashlib.sha256(b"dsa-k-%d-%d-%d" % (L, N, idx)).digest()[:6], "big")
        while True:
            p = k * q + 1
            if p.bit_length() == L and sympy.isprime(p):
                break
            k += 1
            if p.bit_length() > L:
                raise HarnessError("DSA domain search overflow")
        h = 2
        while True:
            g = pow(h, (p - 1) // q, p)
            if g > 1:
                break
            h += 1
        x = int.from_bytes(hashlib.sha256(b"dsa-x-%d-%d-%d" % (L, N, idx)).digest(), "big") % (q - 1) + 1
        return [pow(g, x, p), g, p, q, x]
    v = tuple(_cached("dsa-%d-%d-%d" % (L, N, idx), build))
    _MEM[key] = v
    return v


def elgamal_numbers(bits=256, idx=0):
    """(p, g, y, x): p safe prime, g generator of the order-q subgroup... (library wants g of large order)."""
    key = ("elg", bits, idx)
    if key in _MEM:
        return _MEM[key]

    def build():
        import sympy
        i = 0
        x0 = int.from_bytes(hashlib.shake_128(b"elg-%d-%d" % (bits, idx)).digest(bits // 8), "big") | (1 << (bits - 2)) | 1
        q = x0
        while True:
            q = int(sympy.nextprime(q))
            p = 2 * q + 1
            if p.bit_length() == bits and sympy.isprime(p):
                break
        g = 4           # a square: generates the subgroup of order q
        x = int.from_bytes(hashlib.sha256(b"elg-x-%d-%d" % (bits, idx)).digest(), "big") % (p - 3) + 2
        return [p, g, pow(g, x, p), x]
    v = tuple(_cached("elg-%d-%d" % (bits, idx), build))
    _MEM[key] = v
    return v


NIST = ["p192", "p224", "p256", "p384", "p521"]
ALL_CURVES = NIST + ["ed25519", "ed448", "curve25519", "curve448"]
REFNAME = {"p192": "P-192", "p224": "P-224", "p256": "P-256", "p384": "P-384", "p521": "P-521", "ed25519": "Ed25519", "ed448": "Ed448",
           "curve25519": "Curve25519", "curve448": "Curve448"}
SEEDLEN = {"ed25519": 32, "ed448": 57, "curve25519": 32, "curve448": 56}


def ecc_scalar(curve, seed):
    from .refs import ec
    n = ec.CURVES[REFNAME[curve]]["n"]
    return int.from_bytes(hashlib.shake_128(b"ecc-d" + bytes(seed)).digest(80), "big") % (n - 1) + 1


def ecc_seed(curve, seed):
    return hashlib.shake_128(b"ecc-seed" + bytes(seed)).digest(SEEDLEN[curve])
