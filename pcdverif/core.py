"""Core types shared by all property modules: Check, Violation, Recorder, case codec."""
import hashlib
import json
import os
import traceback

VERIF = os.path.dirname(os.path.dirname(os.path.abspath(__file__)))


class Violation(Exception):
    """The library disagrees with the oracle. `bucket` is a small semantic
    signature (used for known-finding matching and root-cause counting)."""

    def __init__(self, bucket, message, **details):
        Exception.__init__(self, "%s: %s" % (bucket, message))
        self.bucket = bucket
        self.message = message
        self.details = details


class HarnessError(Exception):
    """Oracle/harness problem: never reported as a violation (exit code 2)."""


class Skip(Exception):
    """Case outside the sound input domain; counted, not evaluated."""


# ---------------------------------------------------------------- case codec
def enc(o):
    if isinstance(o, (bytes, bytearray, memoryview)):
        return {"$b": bytes(o).hex()}
    if isinstance(o, (list, tuple)):
        return [enc(x) for x in o]
    if isinstance(o, dict):
        return {str(k): enc(v) for k, v in o.items()}
    if isinstance(o, (int, str, bool, float)) or o is None:
        return o
    raise TypeError("cannot encode %r" % type(o))


def dec(o):
    if isinstance(o, dict):
        if len(o) == 1 and "$b" in o:
            return bytes.fromhex(o["$b"])
        return {k: dec(v) for k, v in o.items()}
    if isinstance(o, list):
        return [dec(x) for x in o]
    return o


def norm(case):
    return dec(enc(case))


def short(o, limit=48):
    """Abbreviated JSON-able rendering of a case for evidence samples."""
    if isinstance(o, (bytes, bytearray)):
        h = bytes(o).hex()
        if len(h) > limit:
            return "hex[%d]:%s…" % (len(o), h[:limit])
        return "hex:" + h
    if isinstance(o, (list, tuple)):
        if len(o) > 12:
            return [short(x, limit) for x in o[:12]] + ["…(%d items)" % len(o)]
        return [short(x, limit) for x in o]
    if isinstance(o, dict):
        return {k: short(v, limit) for k, v in o.items()}
    if isinstance(o, int) and not isinstance(o, bool) and o.bit_length() > 96:
        return "int[%d bits]:0x%x…" % (o.bit_length(), o >> (o.bit_length() - 64))
    if isinstance(o, str) and len(o) > 200:
        return o[:200] + "…"
    return o


# ---------------------------------------------------------------- recorder
class Recorder:
    MAX_SAMPLES = 6

    def __init__(self):
        self.evaluations = 0
        self.events = {}
        self.nontrivial = set()
        self.nontrivial_cases = 0
        self.samples = []
        self._nsamp = 0
        self.excluded_known = {}
        self.skipped = 0
        self.notes = {}

    def event(self, label, n=1):
        self.events[label] = self.events.get(label, 0) + n

    def nt(self, *feature):
        """Mark the current case non-trivial; `feature` is the distinctness key."""
        self.nontrivial_cases += 1
        h = hashlib.blake2b(repr(feature).encode(), digest_size=8).hexdigest()
        self.nontrivial.add(h)

    def sample(self, obj):
        # deterministic thinning reservoir: keep 1st, 2nd, 4th, 8th ... and a few early
        self._nsamp += 1
        n = self._nsamp
        if len(self.samples) < self.MAX_SAMPLES:
            self.samples.append(short(enc(obj)))
        elif n & (n - 1) == 0:
            self.samples[(n.bit_length()) % self.MAX_SAMPLES] = short(enc(obj))

    def known(self, bucket):
        self.excluded_known[bucket] = self.excluded_known.get(bucket, 0) + 1

    def note(self, key, value):
        self.notes[key] = value

    def dump(self):
        return {
            "evaluations": self.evaluations,
            "events": self.events,
            "nontrivial": sorted(self.nontrivial),
            "nontrivial_cases": self.nontrivial_cases,
            "samples": self.samples,
            "excluded_known": self.excluded_known,
            "skipped": self.skipped,
            "notes": self.notes,
        }


# ---------------------------------------------------------------- checks
class Check:
    """One named check of a property.

    kind 'hyp'  : `strategy(tier)` returns a Hypothesis strategy of JSON-able cases,
                  `run(case, rec)` evaluates one case (raises Violation).
    kind 'enum' : `cases(tier, shard, nshards)` yields cases (finite enumeration),
                  `run(case, rec)` as above.
    kind 'custom': `custom(ctx)` does everything itself (ctx: tier, seed, shard, nshards,
                  rec, report(violation, case)).
    kind 'fuzz' : coverage-guided campaign (atheris/libFuzzer) in a child process:
                  `decode(data: bytes)` maps the fuzzer's bytes to a JSON-able case (or None),
                  `run(case, rec)` is the oracle, `corpus()` returns the seed inputs used by the
                  odd shards (even shards start from an empty corpus); `examples` = executions.
    """

    def __init__(self, name, run=None, strategy=None, cases=None, custom=None,
                 examples=(200, 2000), shards=(4, 16), rule="", exhaustive=False,
                 kind=None, env=None, variant="plain", decode=None, corpus=None,
                 fuzz_modules=("Crypto",), max_len=512):
        self.name = name
        self.run = run
        self.strategy = strategy
        self.cases = cases
        self.custom = custom
        self.examples = {"quick": examples[0], "thorough": examples[1]}
        self.shards = {"quick": shards[0], "thorough": shards[1]}
        self.rule = rule
        self.exhaustive = exhaustive
        self.decode = decode
        self.corpus = corpus
        self.fuzz_modules = tuple(fuzz_modules)
        self.max_len = max_len
        self.kind = kind or ("fuzz" if decode else "hyp" if strategy else "enum" if cases else "custom")
        self.env = dict(env or {})          # extra environment of the worker process
        self.variant = variant              # build variant: plain | asan


# ---------------------------------------------------------------- known findings
def load_known():
    p = os.path.join(VERIF, "known_findings.json")
    if not os.path.exists(p):
        return {"known": [], "fixed": []}
    with open(p) as f:
        return json.load(f)


def known_match(known, pid, check, bucket):
    for k in known.get("known", []):
        if k.get("property") == pid and k.get("bucket") == bucket and k.get("check", check) == check:
            return k
    return None


# ---------------------------------------------------------------- library call helper
def innermost_frame(exc):
    tb = traceback.extract_tb(exc.__traceback__)
    return tb[-1] if tb else None


def in_library(exc):
    fr = innermost_frame(exc)
    if fr is None:
        return False
    fn = fr.filename.replace("\\", "/")
    return "/Crypto/" in fn and "/pcdverif/" not in fn


def where(exc):
    fr = innermost_frame(exc)
    if fr is None:
        return "?"
    fn = fr.filename.replace("\\", "/")
    i = fn.rfind("/Crypto/")
    return "%s:%s" % (fn[i + 1:] if i >= 0 else os.path.basename(fn), fr.name)


def libcall(f, *a, allowed=(), bucket=None, **kw):
    """Call into the library. Exceptions of the `allowed` types are returned as
    ('exc', e); any other exception becomes a Violation (bucketed by type and
    innermost library frame). Returns ('ok', value) otherwise."""
    try:
        return "ok", f(*a, **kw)
    except allowed as e:
        return "exc", e
    except (Violation, HarnessError, Skip):
        raise
    except Exception as e:
        b = bucket or "unexpected-exception"
        raise Violation("%s/%s@%s" % (b, type(e).__name__, where(e)),
                        "unexpected %s: %s" % (type(e).__name__, str(e)[:200]))
