"""Structure-aware mutation of DER-like byte strings for the atheris campaigns (custom mutator).

A lenient TLV parser (definite lengths only, recursion into constructed tags and into OCTET/BIT STRINGs whose content parses) turns the
input into a tree; one tree edit is applied (delete / duplicate / swap / replace / wrap / unwrap / retag / edit content) and the tree is
serialised again with *consistent* lengths — the step byte-level mutation cannot do.  All randomness comes from the seed libFuzzer
passes in, so a campaign stays a function of its -seed."""
import random

OIDS = [bytes.fromhex(h) for h in (
    "06092a864886f70d010101", "06072a8648ce380401", "06072a8648ce3d0201", "06082a8648ce3d030107", "06052b81040022", "06032b6570", "06032b656e",
    "06092a864886f70d01050d", "06092a864886f70d01050c", "06092a864886f70d010503", "06092a864886f70d01050a", "060960864801650304010 2".replace(" ", ""),
    "06082a864886f70d0209", "06082a864886f70d0307", "06092b06010401da470 40b".replace(" ", ""), "06032a0304")]
PRIMS = [b"\x02\x01\x00", b"\x02\x01\x01", b"\x02\x01\x02", b"\x02\x03\x01\x00\x01", b"\x05\x00", b"\x30\x00", b"\x04\x00", b"\x04\x08saltsalt", b"\x03\x01\x00",
         b"\x01\x01\xff", b"\x02\x01\x80", b"\x02\x02\x00\x80", b"\x31\x00", b"\xa0\x00", b"\xa1\x00", b"\x04\x10" + bytes(16)]


def enc_len(n):
    if n < 128:
        return bytes([n])
    b = n.to_bytes((n.bit_length() + 7) // 8, "big")
    return bytes([0x80 | len(b)]) + b


class Node:
    __slots__ = ("tag", "children", "content", "inner", "prefix")

    def __init__(self, tag, children=None, content=b"", inner=None, prefix=b""):
        self.tag, self.children, self.content, self.inner, self.prefix = tag, children, content, inner, prefix

    def encode(self):
        if self.children is not None:
            body = b"".join(c.encode() for c in self.children)
        elif self.inner is not None:
            body = self.prefix + self.inner.encode()
        else:
            body = self.content
        return bytes([self.tag]) + enc_len(len(body)) + body


def parse_tlv(data, off, end, depth):
    if end - off < 2:
        return None, off
    tag = data[off]
    l0 = data[off + 1]
    p = off + 2
    if l0 < 0x80:
        n = l0
    elif l0 == 0x80 or l0 > 0x84:
        return None, off
    else:
        k = l0 & 0x7F
        if p + k > end:
            return None, off
        n = int.from_bytes(data[p:p + k], "big")
        p += k
    if p + n > end:
        return None, off
    body_end = p + n
    if tag & 0x20 and depth < 8:
        kids = parse_all(data, p, body_end, depth + 1)
        if kids is not None:
            return Node(tag, children=kids), body_end
    if tag in (0x04, 0x03) and n >= 2 and depth < 8:
        skip = 1 if tag == 0x03 else 0
        sub, e2 = parse_tlv(data, p + skip, body_end, depth + 1)
        if sub is not None and e2 == body_end:
            return Node(tag, inner=sub, prefix=bytes(data[p:p + skip])), body_end
    return Node(tag, content=bytes(data[p:body_end])), body_end


def parse_all(data, off, end, depth):
    out = []
    while off < end:
        nd, off2 = parse_tlv(data, off, end, depth)
        if nd is None:
            return None
        out.append(nd)
        off = off2
    return out


def walk(node, acc, parent=None):
    acc.append((node, parent))
    if node.children is not None:
        for c in node.children:
            walk(c, acc, node)
    elif node.inner is not None:
        walk(node.inner, acc, node)


def rand_prim(rng):
    k = rng.randrange(4)
    if k == 0:
        return parse_tlv(rng.choice(OIDS), 0, 64, 0)[0]
    if k == 1:
        n = rng.choice([0, 1, 7, 8, 16, 20, 32, 127, 128])
        return Node(rng.choice([0x04, 0x02, 0x03, 0x0c]), content=bytes(rng.randrange(256) for _ in range(n)))
    b = rng.choice(PRIMS)
    return parse_tlv(b, 0, len(b), 0)[0]


def mutate_der(body, rng):
    """One structural edit of `body`; returns None if body is not TLV-shaped."""
    roots = parse_all(body, 0, len(body), 0)
    if not roots:
        return None
    top = Node(0x30, children=roots)          # virtual parent so that roots can be edited like any member
    acc = []
    walk(top, acc)
    acc = acc[1:]
    node, parent = rng.choice(acc)
    op = rng.randrange(10)
    sibs = parent.children if parent is not None and parent.children is not None else None
    if op == 0 and sibs is not None:
        sibs.remove(node)
    elif op == 1 and sibs is not None:
        sibs.insert(sibs.index(node), node)
    elif op == 2 and sibs is not None and len(sibs) > 1:
        i, j = sibs.index(node), rng.randrange(len(sibs))
        sibs[i], sibs[j] = sibs[j], sibs[i]
    elif op == 3:
        new = rand_prim(rng)
        node.tag, node.children, node.content, node.inner, node.prefix = new.tag, new.children, new.content, new.inner, new.prefix
    elif op == 4 and sibs is not None:
        sibs.insert(rng.randrange(len(sibs) + 1), rand_prim(rng))
    elif op == 5:
        inner = Node(node.tag, node.children, node.content, node.inner, node.prefix)
        wrap = rng.choice([0x30, 0x04, 0xa0, 0xa1, 0x03, 0x31])
        node.tag = wrap
        if wrap in (0x04, 0x03):
            node.children, node.inner, node.content, node.prefix = None, inner, b"", (b"\x00" if wrap == 0x03 else b"")
        else:
            node.children, node.inner, node.content, node.prefix = [inner], None, b"", b""
    elif op == 6 and node.children:
        # unwrap: replace the node by its first child
        c = node.children[0]
        node.tag, node.children, node.content, node.inner, node.prefix = c.tag, c.children, c.content, c.inner, c.prefix
    elif op == 7:
        node.tag = rng.choice([0x02, 0x04, 0x30, 0x03, 0x05, 0x06, 0x00, 0x31, 0xa0, 0x80, 0x0c, node.tag ^ 0x20])
    elif op == 8 and node.children is None and node.inner is None:
        c = bytearray(node.content)
        k = rng.randrange(5)
        if k == 0 and c:
            c[rng.randrange(len(c))] ^= 1 << rng.randrange(8)
        elif k == 1:
            c = c[:rng.randrange(len(c) + 1)]
        elif k == 2:
            c = bytearray(b"\x00") + c
        elif k == 3 and c:
            c[0] = rng.choice([0x00, 0x80, 0xff, 0x7f])
        else:
            c = bytearray(len(c))
        node.content = bytes(c)
    elif sibs is not None and len(acc) > 1:
        # graft a copy of another subtree here
        e = rng.choice(acc)[0].encode()
        sibs.insert(rng.randrange(len(sibs) + 1), parse_tlv(e, 0, len(e), 0)[0] or Node(0x05))
    try:
        return b"".join(r.encode() for r in top.children)
    except RecursionError:
        return None


def make_mutator(header_len, atheris_mutate):
    """libFuzzer custom mutator: half of the time the default byte-level mutation, otherwise one structural DER edit of data[header_len:]."""
    def mutator(data, max_size, seed):
        rng = random.Random(seed)
        data = bytes(data)
        if len(data) > header_len and rng.randrange(2):
            out = mutate_der(data[header_len:], rng)
            if out is not None:
                hdr = bytearray(data[:header_len])
                if rng.randrange(8) == 0 and hdr:
                    hdr[rng.randrange(len(hdr))] = rng.randrange(256)
                res = bytes(hdr) + out
                if 0 < len(res) <= max_size:
                    return res
        return atheris_mutate(data, max_size)
    return mutator
