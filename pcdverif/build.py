"""Build the extension modules of /repo's *current working tree* out of tree and
expose them, together with a fresh copy of the tree's Python sources, as an
overlay directory that is put first on PYTHONPATH of every check process.

Nothing here imports Crypto.
"""
import fcntl
import hashlib
import os
import shutil
import subprocess
import sys
import time

REPO = os.environ.get("PCDVERIF_REPO", "/repo")
CACHE_ROOT = os.environ.get("PCDVERIF_BUILD_ROOT", "/var/tmp/pcdverif-build")
PYTHON = "/venv/bin/python"
MAX_CACHE = 4

VARIANTS = {
    "plain": {},
    "asan": {
        "CFLAGS": "-fsanitize=address -fno-omit-frame-pointer -g -O1",
        "LDFLAGS": "-fsanitize=address",
    },
}


class BuildError(Exception):
    pass


def _native_key(variant):
    h = hashlib.sha256()
    h.update(variant.encode())
    files = []
    for root, dirs, names in os.walk(os.path.join(REPO, "src")):
        dirs.sort()
        for n in sorted(names):
            files.append(os.path.join(root, n))
    for n in ("setup.py", "compiler_opt.py", "setup.cfg", "pyproject.toml"):
        p = os.path.join(REPO, n)
        if os.path.exists(p):
            files.append(p)
    for p in files:
        h.update(os.path.relpath(p, REPO).encode())
        with open(p, "rb") as f:
            h.update(hashlib.sha256(f.read()).digest())
    return h.hexdigest()[:20]


def _prune(keep):
    try:
        ents = []
        for n in os.listdir(CACHE_ROOT):
            p = os.path.join(CACHE_ROOT, n)
            if n.startswith("so-") and os.path.isdir(p) and p != keep:
                ents.append((os.path.getmtime(p), p))
        ents.sort()
        while len(ents) >= MAX_CACHE:
            _, p = ents.pop(0)
            shutil.rmtree(p, ignore_errors=True)
    except OSError:
        pass


def native(variant="plain", log=None):
    """Return a directory containing Crypto/**/*.so built from the current tree."""
    os.makedirs(CACHE_ROOT, exist_ok=True)
    key = _native_key(variant)
    dest = os.path.join(CACHE_ROOT, "so-%s-%s" % (variant, key))
    lock = open(os.path.join(CACHE_ROOT, ".lock-" + variant), "w")
    fcntl.flock(lock, fcntl.LOCK_EX)
    try:
        if os.path.exists(os.path.join(dest, ".complete")):
            os.utime(dest, None)
            return dest
        shutil.rmtree(dest, ignore_errors=True)
        scratch = os.path.join(CACHE_ROOT, "scratch-%s-%d" % (variant, os.getpid()))
        shutil.rmtree(scratch, ignore_errors=True)
        t0 = time.time()
        try:
            subprocess.run(
                ["rsync", "-a", "--exclude", ".git", "--exclude", "test_vectors",
                 "--exclude", "*.so", "--exclude", "build", "--exclude", "Doc",
                 "--exclude", "__pycache__", "--exclude", "SelfTest",
                 REPO + "/", scratch + "/"], check=True)
            env = dict(os.environ)
            env.update(VARIANTS[variant])
            env.pop("PYTHONPATH", None)
            p = subprocess.run(
                [PYTHON, "setup.py", "-q", "build_ext", "--inplace", "-j", "16"],
                cwd=scratch, env=env, stdout=subprocess.PIPE, stderr=subprocess.STDOUT)
            if p.returncode != 0:
                raise BuildError("build_ext failed:\n" + p.stdout.decode(errors="replace")[-4000:])
            n = 0
            for root, dirs, names in os.walk(os.path.join(scratch, "lib")):
                for nm in names:
                    if nm.endswith(".so"):
                        src = os.path.join(root, nm)
                        rel = os.path.relpath(src, os.path.join(scratch, "lib"))
                        d = os.path.join(dest, rel)
                        os.makedirs(os.path.dirname(d), exist_ok=True)
                        shutil.copy2(src, d)
                        n += 1
            if n < 30:
                raise BuildError("only %d extension modules were built" % n)
            open(os.path.join(dest, ".complete"), "w").write("%d\n" % n)
            if log:
                log("built %d extension modules (%s) in %.1fs" % (n, variant, time.time() - t0))
        finally:
            shutil.rmtree(scratch, ignore_errors=True)
        _prune(dest)
        return dest
    finally:
        fcntl.flock(lock, fcntl.LOCK_UN)
        lock.close()


def overlay(sodir, tag=None):
    """Fresh copy of the tree's Python sources + hard links to the built .so files."""
    tag = tag or "%d-%d" % (os.getpid(), int(time.time() * 1000) % 100000)
    ov = os.path.join(CACHE_ROOT, "run-" + tag)
    shutil.rmtree(ov, ignore_errors=True)
    src = os.path.join(REPO, "lib", "Crypto")

    def ign(d, names):
        out = []
        for n in names:
            if n in ("__pycache__", "SelfTest") or n.endswith((".so", ".pyc")):
                out.append(n)
        return out
    shutil.copytree(src, os.path.join(ov, "Crypto"), ignore=ign)
    for root, dirs, names in os.walk(sodir):
        for nm in names:
            if nm.endswith(".so"):
                s = os.path.join(root, nm)
                rel = os.path.relpath(s, sodir)
                d = os.path.join(ov, rel)
                os.makedirs(os.path.dirname(d), exist_ok=True)
                try:
                    os.link(s, d)
                except OSError:
                    shutil.copy2(s, d)
    return ov


def cleanup_stale(max_age=6 * 3600):
    try:
        now = time.time()
        for n in os.listdir(CACHE_ROOT):
            p = os.path.join(CACHE_ROOT, n)
            if (n.startswith("run-") or n.startswith("scratch-")) and now - os.path.getmtime(p) > max_age:
                shutil.rmtree(p, ignore_errors=True)
    except OSError:
        pass


if __name__ == "__main__":
    v = sys.argv[1] if len(sys.argv) > 1 else "plain"
    print(native(v, log=print))
