#!/bin/bash
# seedround.sh <round dir name, e.g. r3> <out root, e.g. /tmp/seed3-out> <ID>... : copy deliverables and confirm each seed (with the pinned suite)
R=$1; OUT=$2; shift 2
for P in "$@"; do
  mkdir -p /verif/seeded/$P/$R && cp $OUT/$P/patch.diff $OUT/$P/demo.py $OUT/$P/meta.json /verif/seeded/$P/$R/ || continue
  /verif/tools/seedcheck.py /verif/seeded/$P/$R --tests > /var/tmp/seedcheck-$P-$R.log 2>&1
  /venv/bin/python - <<PY
import json
c=json.load(open('/verif/seeded/$P/$R/confirmation.json'))
ch=c['checks']['$P']
print('$P', 'demo', c['demo_pristine_exit'], c['demo_patched_exit'], 'suite', c.get('suite_on_patched_tree',{}).get('passing'), 'check exit', ch['exit'], '%ss'%ch['seconds'], (ch['first'] or ['-'])[0][:230])
PY
done
