#!/bin/bash
# runsome.sh <seed> <tier> <ID>... : run the listed checks once, one line per property
SEED=$1; TIER=$2; shift 2
for p in "$@"; do
  s=$(date +%s); out=$(VERIF_SEED=$SEED PCDVERIF_NOEVIDENCE=1 /verif/vf check $p --tier $TIER 2>&1); rc=$?
  echo "$p seed=$SEED tier=$TIER rc=$rc $(( $(date +%s) - s ))s $(echo "$out" | grep -E "VIOLATION|HARNESS|KNOWN" | head -3 | tr '\n' ' ' | cut -c1-300)"
done
