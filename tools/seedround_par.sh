#!/bin/bash
# seedround_par.sh <round> <out root> <ID> : like seedround.sh for one seed, in its own scratch worktree (several may run at once)
R=$1; OUT=$2; P=$3
mkdir -p /verif/seeded/$P/$R && cp $OUT/$P/patch.diff $OUT/$P/demo.py $OUT/$P/meta.json /verif/seeded/$P/$R/ || exit 2
WT=/var/tmp/pcd-seedwt-$P
/verif/tools/seedcheck.py /verif/seeded/$P/$R --wt $WT --tests > /var/tmp/seedcheck-$P-$R.log 2>&1
git -C /repo worktree remove --force $WT 2>/dev/null; rm -rf $WT
/venv/bin/python - <<PY
import json
c=json.load(open('/verif/seeded/$P/$R/confirmation.json'))
ch=c['checks']['$P']
print('$P', 'demo', c['demo_pristine_exit'], c['demo_patched_exit'], 'suite', c.get('suite_on_patched_tree',{}).get('passing'), 'check exit', ch['exit'], '%ss'%ch['seconds'], (ch['first'] or ['-'])[0][:230])
PY
