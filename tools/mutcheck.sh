#!/bin/bash
# usage: mutcheck.sh <PROP[,PROP..]> <patch.diff> [--only check]...   : apply a patch to a scratch worktree of /repo HEAD,
# run the quick checks against it (PCDVERIF_REPO), then reset the worktree. Never touches /repo's working tree.
set -u
PROPS=$1; PATCH=$2; shift 2
WT=/var/tmp/pcd-mutwt
if [ ! -d $WT ]; then git -C /repo worktree add --detach $WT HEAD -f >/dev/null 2>&1; fi
git -C $WT checkout -q --detach $(git -C /repo rev-parse HEAD) 2>/dev/null
git -C $WT checkout -q -- . ; git -C $WT clean -fdq
if ! git -C $WT apply "$PATCH"; then echo "PATCH DOES NOT APPLY"; exit 3; fi
rc=0
for P in ${PROPS//,/ }; do
  PCDVERIF_REPO=$WT PCDVERIF_NOEVIDENCE=1 /verif/vf check $P --tier quick "$@" 2>&1 | grep -E "VIOLATION|KNOWN|HARNESS|violation in|tier=" | cut -c1-400
done
git -C $WT checkout -q -- . ; git -C $WT clean -fdq
