#!/venv/bin/python
"""seedcheck.py <seed dir> [PROP ...] [--wt DIR] [--tests] [--tier quick|thorough]
Confirm a seeded defect in a scratch worktree and run the registered checks on it.
Steps: (1) worktree at /repo HEAD, demo must exit 0; (2) apply patch.diff, demo must exit 1; (2b, --tests) the pinned suite is run in
the patched worktree (extensions built out of tree, copied in) and compared with BASELINE.json's stable_pass; (3) ./vf check <PROP>
(PCDVERIF_REPO=<worktree>) and report detection; (4) reset the worktree. Never touches /repo's working tree."""
import json, os, shutil, subprocess, sys, time
sys.path.insert(0, os.path.dirname(os.path.dirname(os.path.abspath(__file__))))
args = sys.argv[1:]
WT = '/var/tmp/pcd-seedwt'
tier = 'quick'
run_tests = False
if '--wt' in args:
    i = args.index('--wt'); WT = args[i + 1]; args = args[:i] + args[i + 2:]
if '--tier' in args:
    i = args.index('--tier'); tier = args[i + 1]; args = args[:i] + args[i + 2:]
if '--tests' in args:
    args.remove('--tests'); run_tests = True
d = os.path.abspath(args[0])
meta = json.load(open(os.path.join(d, 'meta.json')))
props = args[1:] or [meta['property']]
head = subprocess.run(['git', '-C', '/repo', 'rev-parse', 'HEAD'], stdout=subprocess.PIPE).stdout.decode().strip()
if not os.path.isdir(WT):
    subprocess.run(['git', '-C', '/repo', 'worktree', 'add', '--detach', '-f', WT, 'HEAD'], stdout=subprocess.DEVNULL, stderr=subprocess.DEVNULL)
subprocess.run(['git', '-C', WT, 'checkout', '-q', '--detach', head]); subprocess.run(['git', '-C', WT, 'checkout', '-q', '--', '.'])
subprocess.run(['git', '-C', WT, 'clean', '-fdxq'])
os.environ['PCDVERIF_REPO'] = WT
from pcdverif import build
import importlib; importlib.reload(build)


def demo():
    so = build.native('plain')
    ov = build.overlay(so, tag='seed-%d' % os.getpid())
    try:
        env = dict(os.environ, PYTHONPATH=ov)
        p = subprocess.run(['/venv/bin/python', os.path.join(d, 'demo.py')], env=env, stdout=subprocess.PIPE, stderr=subprocess.STDOUT, timeout=900, cwd=d)
        return p.returncode, p.stdout.decode(errors='replace')[-300:]
    finally:
        shutil.rmtree(ov, ignore_errors=True)


def suite():
    """Pinned suite in the patched worktree; returns (#baseline-stable tests, #of those passing now, missing list)."""
    so = build.native('plain')
    for root, dirs, names in os.walk(so):
        for nm in names:
            if nm.endswith('.so'):
                rel = os.path.relpath(os.path.join(root, nm), so)
                dst = os.path.join(WT, 'lib', rel)
                os.makedirs(os.path.dirname(dst), exist_ok=True)
                shutil.copy2(os.path.join(root, nm), dst)
    import xml.etree.ElementTree as ET
    b = json.load(open('/root/.vp/BASELINE.json'))
    stable = set(b['stable_pass'])
    out = os.path.join('/var/tmp', 'seedtests-%d.xml' % os.getpid())
    env = dict(os.environ); env.pop('PCDVERIF_REPO', None); env['PYTHONPATH'] = os.path.join(WT, 'lib')
    subprocess.run(['/venv/bin/python', '-m', 'pytest', '-q', '-p', 'no:cacheprovider', '--timeout=900', '--continue-on-collection-errors',
                    '-n', '8', '--junitxml=' + out], cwd=WT, env=env, stdout=subprocess.DEVNULL, stderr=subprocess.DEVNULL)
    passed = set()
    for tc in ET.parse(out).getroot().iter('testcase'):
        if not any(ch.tag in ('failure', 'error', 'skipped') for ch in tc):
            passed.add('%s::%s' % (tc.get('classname'), tc.get('name')))
    os.unlink(out)
    missing = sorted(stable - passed)
    return len(stable), len(stable & passed), missing[:20]


res = {'head': head, 'tier': tier}
try:
    prev = json.load(open(os.path.join(d, 'confirmation.json')))
    if 'suite_on_patched_tree' in prev and not run_tests:
        res['suite_on_patched_tree'] = prev['suite_on_patched_tree']      # the patch is unchanged: keep the suite result of the earlier run
    if prev.get('checks') and any(v.get('exit') == 0 for v in prev['checks'].values()):
        res['first_attempt'] = prev.get('first_attempt') or {k: v for k, v in prev['checks'].items()}
except (OSError, ValueError):
    pass
rc0, out0 = demo(); res['demo_pristine_exit'] = rc0
ap = subprocess.run(['git', '-C', WT, 'apply', os.path.join(d, 'patch.diff')], stderr=subprocess.PIPE)
if ap.returncode:
    print('PATCH DOES NOT APPLY', ap.stderr.decode()[:300]); sys.exit(3)
rc1, out1 = demo(); res['demo_patched_exit'] = rc1; res['demo_patched_output'] = out1.strip().splitlines()[-1:]
if run_tests:
    n, ok, missing = suite()
    res['suite_on_patched_tree'] = {'baseline_stable': n, 'passing': ok, 'no_longer_passing': missing}
det = {}
for P in props:
    t0 = time.time()
    env = dict(os.environ, PCDVERIF_REPO=WT, PCDVERIF_NOEVIDENCE='1')
    r = subprocess.run(['/verif/vf', 'check', P, '--tier', tier], env=env, stdout=subprocess.PIPE, stderr=subprocess.STDOUT)
    lines = [l for l in r.stdout.decode().splitlines() if 'violation in check' in l or 'HARNESS' in l]
    det[P] = {'exit': r.returncode, 'seconds': round(time.time() - t0, 1), 'first': [l[:260] for l in lines[:3]]}
res['checks'] = det
subprocess.run(['git', '-C', WT, 'checkout', '-q', '--', '.']); subprocess.run(['git', '-C', WT, 'clean', '-fdxq'])
print(json.dumps(res, indent=1))
json.dump(res, open(os.path.join(d, 'confirmation.json'), 'w'), indent=1)
