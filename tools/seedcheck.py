#!/venv/bin/python
"""seedcheck.py <seed dir> [PROP ...]: confirm a seeded defect in a scratch worktree and run the registered quick checks on it.
Steps: (1) worktree at /repo HEAD, demo must exit 0; (2) apply patch.diff, demo must exit 1; (3) run ./vf check <PROP> for the
property (PCDVERIF_REPO) and report detection; (4) reset the worktree. Never touches /repo's working tree."""
import json, os, subprocess, sys, time
sys.path.insert(0, os.path.dirname(os.path.dirname(os.path.abspath(__file__))))
WT = '/var/tmp/pcd-seedwt'
d = os.path.abspath(sys.argv[1])
meta = json.load(open(os.path.join(d, 'meta.json')))
props = sys.argv[2:] or [meta['property']]
head = subprocess.run(['git', '-C', '/repo', 'rev-parse', 'HEAD'], stdout=subprocess.PIPE).stdout.decode().strip()
if not os.path.isdir(WT):
    subprocess.run(['git', '-C', '/repo', 'worktree', 'add', '--detach', '-f', WT, 'HEAD'], stdout=subprocess.DEVNULL, stderr=subprocess.DEVNULL)
subprocess.run(['git', '-C', WT, 'checkout', '-q', '--detach', head]); subprocess.run(['git', '-C', WT, 'checkout', '-q', '--', '.'])
os.environ['PCDVERIF_REPO'] = WT
from pcdverif import build
import importlib; importlib.reload(build)
def demo():
    so = build.native('plain')
    ov = build.overlay(so, tag='seed-%d' % os.getpid())
    try:
        env = dict(os.environ, PYTHONPATH=ov)
        p = subprocess.run(['/venv/bin/python', os.path.join(d, 'demo.py')], env=env, stdout=subprocess.PIPE, stderr=subprocess.STDOUT, timeout=600, cwd=d)
        return p.returncode, p.stdout.decode(errors='replace')[-300:]
    finally:
        import shutil; shutil.rmtree(ov, ignore_errors=True)
res = {'head': head}
rc0, out0 = demo(); res['demo_pristine_exit'] = rc0
ap = subprocess.run(['git', '-C', WT, 'apply', os.path.join(d, 'patch.diff')], stderr=subprocess.PIPE)
if ap.returncode:
    print('PATCH DOES NOT APPLY', ap.stderr.decode()[:300]); sys.exit(3)
rc1, out1 = demo(); res['demo_patched_exit'] = rc1; res['demo_patched_output'] = out1.strip().splitlines()[-1:] 
det = {}
for P in props:
    t0 = time.time()
    env = dict(os.environ, PCDVERIF_REPO=WT, PCDVERIF_NOEVIDENCE='1')
    r = subprocess.run(['/verif/vf', 'check', P, '--tier', 'quick'], env=env, stdout=subprocess.PIPE, stderr=subprocess.STDOUT)
    lines = [l for l in r.stdout.decode().splitlines() if 'violation in check' in l or 'HARNESS' in l]
    det[P] = {'exit': r.returncode, 'seconds': round(time.time() - t0, 1), 'first': [l[:260] for l in lines[:3]]}
res['checks'] = det
subprocess.run(['git', '-C', WT, 'checkout', '-q', '--', '.']); subprocess.run(['git', '-C', WT, 'clean', '-fdq'])
print(json.dumps(res, indent=1))
json.dump(res, open(os.path.join(d, 'confirmation.json'), 'w'), indent=1)
