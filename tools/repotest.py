#!/venv/bin/python
"""Run (a subset of) the pinned suite in /repo and compare with BASELINE.json's stable_pass list.
usage: repotest.py [pytest path args...]   (default: whole suite)"""
import json, subprocess, sys, os, tempfile
import xml.etree.ElementTree as ET
b = json.load(open('/root/.vp/BASELINE.json'))
stable = b['stable_pass']
if isinstance(stable, str):
    import ast
    stable = ast.literal_eval(stable)
stable = set(stable)
args = sys.argv[1:]
out = tempfile.mktemp(suffix='.xml', dir='/var/tmp')
cmd = ['/venv/bin/python', '-m', 'pytest', '-q', '-p', 'no:cacheprovider', '--timeout=900', '--continue-on-collection-errors',
       '-n', '12', '--junitxml=' + out] + args
env = dict(os.environ); env.pop('LEGRANDIN_PYCRYPTODOME_VERIF', None)
p = subprocess.run(cmd, cwd='/repo', env=env, stdout=subprocess.PIPE, stderr=subprocess.STDOUT)
print(p.stdout.decode()[-600:])
passed = set(); seen = set()
for tc in ET.parse(out).getroot().iter('testcase'):
    name = '%s::%s' % (tc.get('classname'), tc.get('name'))
    seen.add(name)
    if not any(ch.tag in ('failure', 'error', 'skipped') for ch in tc):
        passed.add(name)
os.unlink(out)
if args:
    prefixes = tuple(a.rstrip('/').replace('/', '.').replace('.py', '') for a in args if not a.startswith('-'))
    expected = {s for s in stable if s.startswith(prefixes)}
else:
    expected = stable
missing = sorted(expected - passed)
print('baseline stable tests in scope: %d, passed now: %d, baseline tests NOT passing now: %d' % (len(expected), len(expected & passed), len(missing)))
for m in missing[:40]:
    print('  MISSING', m)
sys.exit(1 if missing else 0)
