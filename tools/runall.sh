#!/bin/bash
# runall.sh <seed> <tier> : run every registered check once, print one line per property
SEED=${1:-1}; TIER=${2:-quick}
for p in C01 C02 C03 C04 C05 C06 C07 C08 C09 C10 C11 C12 C13 C14 C15 C16 C17 C18 C19 C20; do
  s=$(date +%s); out=$(VERIF_SEED=$SEED PCDVERIF_NOEVIDENCE=1 /verif/vf check $p --tier $TIER 2>&1); rc=$?
  echo "$p seed=$SEED rc=$rc $(( $(date +%s) - s ))s $(echo "$out" | grep -E "VIOLATION|HARNESS|KNOWN" | head -3 | tr '\n' ' ' | cut -c1-300)"
done
