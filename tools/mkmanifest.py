#!/usr/bin/env python3
"""Regenerates MANIFEST.json from the table below (claimed checks) and properties.jsonl."""
import json, os
V = os.path.dirname(os.path.dirname(os.path.abspath(__file__)))
props = [json.loads(l) for l in open(os.path.join(V, "properties.jsonl"))]

# id -> (technique, level text, level note, design ref)
CLAIMS = json.load(open(os.path.join(V, "tools", "claims.json")))
NA = json.load(open(os.path.join(V, "tools", "not_applicable.json")))

checks = []
for p in props:
    pid = p["id"]
    if pid not in CLAIMS:
        continue
    c = CLAIMS[pid]
    checks.append({
        "property_id": pid,
        "quick_cmd": "./vf check %s --tier quick" % pid,
        "thorough_cmd": "./vf check %s --tier thorough" % pid,
        "evidence_file": "evidence/%s.json" % pid,
        "replay_cmd_template": "./vf replay {path}",
        "engine": "pcdverif",
        "level_claimed": {"category": "exploration", "text": c["text"], "design_ref": c.get("design_ref", "DESIGN.md §2 " + pid)},
        "level_note": c["note"],
        "technique": c["technique"],
    })
na = [{"property_id": p["id"], "reason": NA.get(p["id"], "check not built yet in this session (work in progress); see DESIGN.md")}
      for p in props if p["id"] not in CLAIMS]
m = {
    "version": 1,
    "setup_cmd": "./vf setup",
    "hooks": {
        "guard": "LEGRANDIN_PYCRYPTODOME_VERIF",
        "enable": "no source hooks are needed: checks build /repo's working tree out of tree (pcdverif/build.py) and inject entropy/back-end selection through public parameters; the variable is reserved",
        "baseline_off_cmd": "cd /repo && env -u LEGRANDIN_PYCRYPTODOME_VERIF /venv/bin/python -m pytest -ra -q -p no:cacheprovider --timeout=900 --continue-on-collection-errors",
        "source_commits": [],
        "add_only": True,
    },
    "engines": [{"name": "pcdverif", "path": "pcdverif/", "serves_properties": [c["property_id"] for c in checks],
                 "kind_free_text": "Hypothesis-driven generated-input search (16 sharded processes) against independent reference oracles (pure-Python spec implementations, system libcrypto via ctypes, hashlib), stateful step-list machines for histories, exhaustive enumeration of small finite domains, coverage-guided atheris/libFuzzer campaigns with a structure-aware DER mutator (C05, C13), ASan-instrumented build for memory safety"}],
    "checks": checks,
    "not_applicable": na,
    "notes": "Every check: ./vf check <id> --tier quick|thorough; replay: ./vf replay <file>. Exit 0 held / 1 VIOLATION / 2 harness error. Known findings: known_findings.json.",
}
json.dump(m, open(os.path.join(V, "MANIFEST.json"), "w"), indent=1)
print("claimed:", [c["property_id"] for c in checks])
