#!/venv/bin/python
"""addreplay.py <PROP> <check> <name> '<python-literal case>' : store a committed regression replay."""
import sys, os, json, ast
sys.path.insert(0, os.path.dirname(os.path.dirname(os.path.abspath(__file__))))
from pcdverif.core import enc
pid, check, name, lit = sys.argv[1:5]
case = eval(lit)
d = os.path.join(os.path.dirname(os.path.dirname(os.path.abspath(__file__))), 'replays', pid)
os.makedirs(d, exist_ok=True)
p = os.path.join(d, name + '.json')
json.dump({'property': pid, 'check': check, 'case': enc(case), 'note': sys.argv[5] if len(sys.argv) > 5 else ''}, open(p, 'w'), indent=1, sort_keys=True)
print(p)
