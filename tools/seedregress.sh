#!/bin/bash
# seedregress.sh [ID] : re-run the registered quick check of every kept seeded defect (all rounds) and print one line per seed
for d in /verif/seeded/${1:-C*}/ /verif/seeded/${1:-C*}/r[2-9]/; do
  [ -f $d/patch.diff ] || continue
  P=$(/venv/bin/python -c "import json;print(json.load(open('$d/meta.json'))['property'])")
  /verif/tools/seedcheck.py $d > /var/tmp/seedregress.tmp 2>&1
  /venv/bin/python - <<PY
import json
try:
    c=json.load(open('$d/confirmation.json')); ch=c['checks']['$P']
    print('$d'.replace('/verif/seeded/',''), 'demo', c['demo_pristine_exit'], c['demo_patched_exit'], 'check-exit', ch['exit'], '%ss'%ch['seconds'], (ch['first'] or ['-'])[0][30:150])
except Exception as e:
    print('$d', 'ERROR', e, open('/var/tmp/seedregress.tmp').read()[-300:])
PY
done
