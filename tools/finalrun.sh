#!/bin/bash
# finalrun.sh : run every registered quick check once in /verif against /repo (evidence files are rewritten), one line per property
cd /verif
for p in C01 C02 C03 C04 C05 C06 C07 C08 C09 C10 C11 C12 C13 C14 C15 C16 C17 C18 C19 C20; do
  s=$(date +%s); out=$(VERIF_SEED=${1:-1} ./vf check $p --tier quick 2>&1); rc=$?
  echo "$p rc=$rc $(( $(date +%s) - s ))s $(echo "$out" | grep -E "VIOLATION|HARNESS|KNOWN" | head -2 | tr '\n' ' ' | cut -c1-200) $(echo "$out" | tail -1 | cut -c1-120)"
done
