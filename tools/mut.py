#!/venv/bin/python
"""mut.py <PROPS> <relative file> <old> <new> [--only check ...] [--save name]
Apply a one-string mutation to a scratch worktree of /repo HEAD, run the quick checks on it, reset."""
import subprocess, sys, os
WT = '/var/tmp/pcd-mutwt'
props, rel, old, new = sys.argv[1:5]
rest = sys.argv[5:]
save = None
if '--save' in rest:
    i = rest.index('--save'); save = rest[i + 1]; rest = rest[:i] + rest[i + 2:]
head = subprocess.run(['git', '-C', '/repo', 'rev-parse', 'HEAD'], stdout=subprocess.PIPE).stdout.decode().strip()
if not os.path.isdir(WT):
    subprocess.run(['git', '-C', '/repo', 'worktree', 'add', '--detach', '-f', WT, 'HEAD'], stdout=subprocess.DEVNULL, stderr=subprocess.DEVNULL)
subprocess.run(['git', '-C', WT, 'checkout', '-q', '--detach', head])
subprocess.run(['git', '-C', WT, 'checkout', '-q', '--', '.'])
p = os.path.join(WT, rel)
s = open(p).read()
if s.count(old) < 1:
    print('OLD STRING NOT FOUND'); sys.exit(3)
s = s.replace(old, new, 1)
open(p, 'w').write(s)
if save:
    d = subprocess.run(['git', '-C', WT, 'diff'], stdout=subprocess.PIPE).stdout
    os.makedirs('/var/tmp/muts', exist_ok=True)
    open('/var/tmp/muts/%s.diff' % save, 'wb').write(d)
env = dict(os.environ, PCDVERIF_REPO=WT, PCDVERIF_NOEVIDENCE='1')
try:
    for P in props.split(','):
        r = subprocess.run(['/verif/vf', 'check', P, '--tier', 'quick'] + rest, env=env, stdout=subprocess.PIPE, stderr=subprocess.STDOUT)
        for line in r.stdout.decode().splitlines():
            if any(k in line for k in ('VIOLATION', 'KNOWN', 'HARNESS', 'violation in', 'tier=')):
                print(line[:300])
        print('exit', r.returncode)
finally:
    subprocess.run(['git', '-C', WT, 'checkout', '-q', '--', '.'])
